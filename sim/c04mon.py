"""C04 invariant monitor: decided on the written files alone (no biological oracle)."""
import contextlib
import io
import sys

from sim import boot

boot.boot()

# pylint: disable=wrong-import-position
from Bio import SeqUtils
from moPepGen import params
import moPepGen.cli.common  # noqa

common_mod = sys.modules['moPepGen.cli.common']


def load_pool(args):
    """The canonical pool the run itself loads for its cleavage settings."""
    cp = params.CleavageParams(
        enzyme=args.cleavage_rule, exception=args.cleavage_exception, miscleavage=int(args.miscleavage),
        min_mw=float(args.min_mw), min_length=args.min_length, max_length=args.max_length)
    with contextlib.redirect_stdout(io.StringIO()):
        _, _, _, pool = common_mod.load_references(
            args=args, load_genome=False,
            invalid_protein_as_noncoding=getattr(args, 'invalid_protein_as_noncoding', False),
            cleavage_params=cp)
    return set(pool)


def check_sequences(seqs, pool, min_length, max_length, min_mw):
    """Invariants 1 and 2.  Returns a list of (kind, sequence)."""
    bad = []
    pool_il = {p.replace('I', 'L') for p in pool}
    for s in seqs:
        if s in pool or s in pool_il:
            bad.append(('canonical', s))
        if not min_length <= len(s) <= max_length:
            bad.append(('length', s))
        if 'X' in s or '*' in s:
            bad.append(('alphabet', s))
        else:
            try:
                if SeqUtils.molecular_weight(s, 'protein') < min_mw:
                    bad.append(('mass', s))
            except Exception:  # pylint: disable=broad-except
                bad.append(('alphabet', s))
    return bad


def check_callvariant(run, pool, config):
    """All five invariants on a completed callVariant execution.  Returns list of (kind, item)."""
    bad = check_sequences(run.fasta.keys(), pool, config['min_length'], config['max_length'],
                          float(config['min_mw']))
    for s in getattr(run, 'fasta_dups', []):
        bad.append(('duplicate_sequence', s))
    fasta_pairs = set()
    for s, entries in run.fasta.items():
        if len(entries) != len(set(entries)):
            bad.append(('duplicate_header_entry', s))
        for e in entries:
            fasta_pairs.add((s, e))
    table_pairs = set()
    for row in run.table:
        if len(row) < 5:
            bad.append(('table_row_malformed', '\t'.join(row)))
            continue
        seq, header, subseq, start, end = row[0], row[1], row[2], row[3], row[4]
        table_pairs.add((seq, header))
        try:
            if seq[int(start):int(end)] != subseq:
                bad.append(('table_slice', f'{seq} {header} {subseq} {start}:{end}'))
        except ValueError:
            bad.append(('table_row_malformed', '\t'.join(row)))
    for p in sorted(fasta_pairs - table_pairs)[:5]:
        bad.append(('fasta_pair_not_in_table', ' '.join(p)))
    for p in sorted(table_pairs - fasta_pairs)[:5]:
        bad.append(('table_pair_not_in_fasta', ' '.join(p)))
    return bad
