"""In-memory re-creations of four breakages, used only by the sensitivity part of the self-test
(VERIF_MUTANT=<name>).  They are applied by rewriting the source of one function of the imported working tree
and exec-ing it in its module namespace; nothing on disk changes."""
import inspect
import sys
import textwrap

MUTANTS = {
    # batch loop only counts dispatched transcripts again (C06)
    'flush': ('moPepGen.cli.call_variant_peptide', 'call_variant_peptide',
              [("""            if dispatch:
                dispatches.append(dispatch)
                caller.tally.n_transcripts_processed += 1
""", """            if not dispatch:
                continue
            dispatches.append(dispatch)
            caller.tally.n_transcripts_processed += 1
"""), ("reloaded = (len(dispatches) >= caller.threads or i + 1 == len(tx_sorted))",
       "reloaded = ((i + 1) % caller.threads == 0 or i + 1 == len(tx_sorted))")], 'C06'),
    # missing `continue` after a caught circRNA failure (C07)
    'circ_continue': ('moPepGen.cli.call_variant_peptide', 'call_variant_peptides_wrapper',
                      [("""                success_flags = (success_flags[0], success_flags[1], False)
                continue
""", """                success_flags = (success_flags[0], success_flags[1], False)
""")], 'C07'),
    # stale-idx check disabled (C13)
    'stale_idx': ('moPepGen.seqvar.VariantRecordPoolOnDisk', 'VariantRecordPoolOnDisk.validate_gvf_index',
                  [('        if sum_actual == sum_expect:\n            return True\n',
                    '        return True\n')], 'C13'),
    # pointer-dict bookkeeping before the pointer is known to exist (C11)
    'pointer_dict': ('moPepGen.gtf.GTFPointer', 'TranscriptPointerDict.__getitem__',
                     [("""        pointer:TranscriptPointer = self.get_pointer(__key)
        self._cached_keys.appendleft(__key)
""", """        self._cached_keys.appendleft(__key)
"""), ("        val = pointer.load()\n",
       "        pointer = self.get_pointer(__key)\n        val = pointer.load()\n")], 'C11'),
}


def _strip(text, n):
    return '\n'.join(l[n:] if l.startswith(' ' * n) else l for l in text.split('\n'))


def install(name):
    modname, path, edits, prop = MUTANTS[name]
    __import__(modname)
    mod = sys.modules[modname]
    parts = path.split('.')
    owner = mod
    for p in parts[:-1]:
        owner = getattr(owner, p)
    raw = inspect.getattr_static(owner, parts[-1])
    is_static = isinstance(raw, staticmethod)
    fn = raw.__func__ if isinstance(raw, (staticmethod, classmethod)) else raw
    fn = inspect.unwrap(fn)
    full = inspect.getsource(fn)
    first = full.split('\n')[0]
    n = len(first) - len(first.lstrip())
    src = textwrap.dedent(full)
    for old, new in edits:
        old_d, new_d = _strip(old, n), _strip(new, n)
        if old_d not in src:
            raise RuntimeError(f'mutant {name}: text to replace not found (tree changed?)')
        src = src.replace(old_d, new_d)
    ns = mod.__dict__
    tmp = {}
    if len(parts) > 1:
        # compile inside a class body of the same name so that name mangling (__key) is preserved
        cls_src = 'from __future__ import annotations\n' + f'class {parts[0]}:\n' + textwrap.indent(src, '    ')
        exec(compile(cls_src, f'<mutant {name}>', 'exec'), ns, tmp)  # pylint: disable=exec-used
        setattr(owner, parts[-1], inspect.getattr_static(tmp[parts[0]], parts[-1]))
    else:
        exec(compile('from __future__ import annotations\n' + src, f'<mutant {name}>', 'exec'), ns, tmp)  # pylint: disable=exec-used
        setattr(owner, parts[-1], tmp[parts[-1]])
    return prop
