"""Worker process entry point (run as a script, never with -m, so modules are loaded once).

  worker_main.py run <pid> <seed> <tier> <tasks.json> <out.jsonl> <budget_s> <case_timeout>
  worker_main.py replay <file>          exit 1 + REPLAY-VIOLATION lines if the violation reproduces
  worker_main.py minimise <file>        writes <file minus .json>.min.json
  worker_main.py call <module> <function> [args...]   prints CALL-RESULT <json>
"""
import faulthandler
import json
import os
import sys
import time
from pathlib import Path

sys.path.insert(0, str(Path(__file__).resolve().parent.parent))

from sim import driver  # noqa  pylint: disable=wrong-import-position


def cmd_run(argv):
    pid, seed, tier, tasks_file, out_file, budget_s, case_timeout = argv
    seed = int(seed)
    budget_s = float(budget_s)
    case_timeout = int(float(case_timeout))
    tasks = json.loads(Path(tasks_file).read_text())
    eng = driver.load_engine(pid)
    t0 = time.time()
    done = []
    with open(out_file, 'w') as out:
        for t in tasks:
            if time.time() - t0 > budget_s:
                break
            faulthandler.dump_traceback_later(case_timeout, exit=True)
            r = eng.run_case(seed, t, tier)
            faulthandler.cancel_dump_traceback_later()
            r['task'] = t
            for v in r.get('violations', []):
                # what this interpreter had executed before the failing case: lets a failure that depends on state
                # the system under test keeps across cases (a class-level cache, say) be replayed all the same
                v['task'] = t
                v['tier'] = tier
                v['worker_prefix'] = list(done)
            done.append(t)
            out.write(json.dumps(r, default=str) + '\n')
            out.flush()
    return 0


def cmd_replay(argv):
    rep = json.loads(Path(argv[0]).read_text())
    eng = driver.load_engine(rep['property'])
    prefix_only = '--prefix-only' in argv
    vs = []
    if not prefix_only:
        faulthandler.dump_traceback_later(800, exit=True)
        vs = eng.replay(rep)
        vs = [v for v in vs if v['property'] == rep['property']]
        faulthandler.cancel_dump_traceback_later()
        if not vs and rep.get('worker_prefix') and rep.get('task') and not rep.get('minimised'):
            # not reproducible from the case alone: in ANOTHER fresh interpreter (this one has just executed the
            # case, which may itself have changed the state in question) re-execute what the worker had executed
            # before the case, then the case
            import subprocess
            p = subprocess.run([sys.executable, __file__, 'replay', argv[0], '--prefix-only'], text=True,
                               capture_output=True, timeout=3300)
            sys.stdout.write(p.stdout)
            return p.returncode
    else:
        faulthandler.dump_traceback_later(3200, exit=True)
        for t in rep['worker_prefix']:
            eng.run_case(rep['seed'], t, rep.get('tier', 'quick'))
        r = eng.run_case(rep['seed'], rep['task'], rep.get('tier', 'quick'))
        vs = [v for v in r.get('violations', []) if v['property'] == rep['property'] and v['clause'] == rep['clause']]
        if vs:
            print('REPLAY-NOTE reproduced only together with the %d cases the worker had executed before it '
                  '(state carried across cases inside the process)' % len(rep['worker_prefix']))
    for v in vs:
        print('REPLAY-VIOLATION ' + json.dumps({'clause': v['clause'], 'signature': v['signature'],
                                                'detail': v.get('detail')}, default=str))
    return 1 if vs else 0


def cmd_minimise(argv):
    path = Path(argv[0])
    rep = json.loads(path.read_text())
    eng = driver.load_engine(rep['property'])
    if not hasattr(eng, 'shrink_candidates'):
        return 3
    t0 = time.time()
    budget = float(os.environ.get('VERIF_MIN_BUDGET_S', '150'))
    max_runs = int(os.environ.get('VERIF_MIN_RUNS', '120'))
    runs = 0
    clause = rep['clause']
    changed = True
    while changed and runs < max_runs and time.time() - t0 < budget:
        changed = False
        for cand in eng.shrink_candidates(rep):
            if runs >= max_runs or time.time() - t0 > budget:
                break
            runs += 1
            try:
                vs = eng.replay(cand)
            except Exception:  # pylint: disable=broad-except
                continue
            same = [v for v in vs if v['property'] == rep['property'] and v['clause'] == clause]
            if same:
                cand['signature'] = same[0]['signature']
                cand['detail'] = same[0].get('detail')
                cand['minimised'] = {'runs': runs}
                rep = cand
                changed = True
                break
    out = Path(str(path)[:-5] + '.min.json')
    out.write_text(json.dumps(rep, indent=1, sort_keys=True, default=str))
    return 0


def cmd_call(argv):
    import importlib
    mod = importlib.import_module(argv[0])
    res = getattr(mod, argv[1])(*argv[2:])
    print('CALL-RESULT ' + json.dumps(res, default=str))
    return 0


if __name__ == '__main__':
    mode = sys.argv[1]
    rc = {'run': cmd_run, 'replay': cmd_replay, 'minimise': cmd_minimise,
          'call': cmd_call}[mode](sys.argv[2:])
    sys.stdout.flush()
    os._exit(rc)  # pylint: disable=protected-access
