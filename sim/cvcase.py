"""Whole-system callVariant cases: generation (swarm style), layouts, materialisation into a scratch dir."""
import os
import shutil
import tempfile
from pathlib import Path

from sim import workload, cvrun

CLEAVAGE_ALPHABET = [
    # (rule, exception, miscleavage, min_length, max_length, min_mw)
    ('trypsin', None, 2, 7, 25, 500.),
    ('trypsin', None, 0, 7, 25, 500.),
    ('trypsin', 'trypsin_exception', 1, 6, 30, 400.),
    ('trypsin', 'auto', 2, 7, 25, 500.),
    ('lysn', None, 1, 7, 25, 500.),
    ('chymotrypsin high specificity', None, 2, 7, 25, 500.),
    ('asp-n', None, 2, 8, 20, 700.),
    ('chymotrypsin low specificity', None, 1, 7, 25, 500.),
    ('thermolysin', None, 1, 7, 25, 500.),
    ('pepsin ph2.0', None, 1, 7, 25, 500.),
    ('proline endopeptidase', None, 2, 7, 40, 500.),
    ('ntcb', None, 2, 7, 30, 500.),
]
# Probe (design phase + build phase): arg-c, lysc, cnbr, clostripain, formic acid, glutamyl endopeptidase,
# proteinase k, bnps-skatole, iodosobenzoic acid and staphylococcal peptidase i make callVariant raise
# IndexError in PVGNode._get_nth_rf_index on every generated input -- schedule independent, hence not in
# the alphabet of the whole-system engines (they stay in C12's alphabet, where only pool building runs).


def gen_config(rng, small=False):
    rule, exc, misc, minl, maxl, mw = rng.choice(CLEAVAGE_ALPHABET[:3] if small else CLEAVAGE_ALPHABET)
    return {
        'cleavage_rule': rule, 'cleavage_exception': exc, 'miscleavage': misc, 'min_length': minl,
        'max_length': maxl, 'min_mw': mw,
        'selenocysteine_termination': rng.random() < 0.6,
        'w2f_reassignment': rng.random() < 0.5,
        'coding_novel_orf': rng.random() < 0.25,
        'noncanonical_transcripts': rng.random() < 0.35,
        'backsplicing_only': rng.random() < 0.15,
        'invalid_protein_as_noncoding': rng.random() < 0.2,
        'max_adjacent_as_mnv': 2,
    }


PARALOG_SHARE = 0.2


def gen_case(rng, n_genes=None, n_records=None, cluster=None, config=None, mix=None, paralog=None):
    n_genes = n_genes or rng.randint(3, 9)
    n_records = n_records or rng.randint(8, 26)
    cluster = (rng.random() < 0.3) if cluster is None else cluster
    paralog = (rng.random() < PARALOG_SHARE) if paralog is None else paralog
    mirror = []
    if paralog:
        # every gene has a near-identical paralog: variant and W>F peptides collide with canonical ones
        texts, anno, genome, mirror = workload.gen_paralog_reference(rng, max(2, (n_genes + 1) // 2))
    else:
        texts, anno, genome = workload.gen_reference(rng, n_genes)
    var_lines, circ_lines, stats = workload.gen_records(
        rng, anno, genome, n_records, mix=mix, cluster=cluster,
        intronic_only_txs=rng.choice([0, 0, 1, 1, 2]))
    var_lines = var_lines + [l for l in mirror if l not in var_lines]
    stats['paralog_mirror_snvs'] = len(mirror)
    var_lines.sort(key=workload.line_tx_id)
    circ_lines.sort(key=workload.line_tx_id)
    tx_order = [t for t in anno.transcripts.keys()]
    return {
        'texts': texts, 'var_lines': var_lines, 'circ_lines': circ_lines,
        'config': config if config is not None else gen_config(rng),
        'stats': dict(stats, n_genes=n_genes, cluster=cluster, n_tx=len(tx_order)),
    }


CORPUS = Path(__file__).resolve().parent.parent / 'corpus'
_CORPUS = []


def corpus_entries():
    """(reference, GVF list) pairs copied from the repository's own integration tests (tools/harvest_corpus.py)
    plus the demo reference with the demo GVFs: real exon layouts, multi-isoform genes, published bug reports."""
    if not _CORPUS:
        import json
        real = CORPUS / 'real'
        for e in json.loads((real / 'manifest.json').read_text()):
            _CORPUS.append({'name': e['name'], 'ref': real / e['ref'], 'proteome': 'proteome.fasta',
                            'gvf': [real / g for g in e['gvf']]})
        demo = CORPUS / 'demo'
        _CORPUS.append({'name': 'demo', 'ref': demo, 'proteome': 'translate.fasta',
                        'gvf': sorted((demo / 'gvf').glob('*.gvf'))})
    return _CORPUS


def gen_corpus_case(rng, config=None):
    """A case over a corpus reference: the records of its GVFs (a PRNG-chosen subset), re-filed by the layout."""
    entries = corpus_entries()
    e = entries[-1] if rng.random() < 0.3 else rng.choice(entries[:-1])
    texts = {'genome_fa': (e['ref'] / 'genome.fasta').read_text(),
             'gtf': (e['ref'] / 'annotation.gtf').read_text(),
             'proteome_fa': (e['ref'] / e['proteome']).read_text()}
    var, cir = [], []
    for g in e['gvf']:
        lines = g.read_text().splitlines()
        is_circ = any(l.startswith('##parser=parseCIRCexplorer') for l in lines)
        for l in lines:
            if l and not l.startswith('#'):
                dst = cir if is_circ else var
                if l not in dst:
                    dst.append(l)
    keep = rng.choice([1.0, 1.0, 0.85, 0.6])
    if keep < 1.0:
        var2 = [l for l in var if rng.random() < keep]
        cir2 = [l for l in cir if rng.random() < keep]
        if var2 or cir2:
            var, cir = var2, cir2
    var.sort(key=workload.line_tx_id)
    cir.sort(key=workload.line_tx_id)
    n_tx = sum(1 for l in texts['gtf'].splitlines() if '\ttranscript\t' in l)
    return {
        'texts': texts, 'var_lines': var, 'circ_lines': cir,
        'config': config if config is not None else gen_config(rng),
        'stats': {'corpus': e['name'], 'n_var': len(var), 'n_circ': len(cir), 'n_tx': n_tx, 'cluster': False,
                  'n_genes': sum(1 for l in texts['gtf'].splitlines() if '\tgene\t' in l)},
    }


def reference_layout(case):
    lay = {'files': [], 'index_dir': False}
    if case['var_lines']:
        lay['files'].append({'circ': False, 'lines': list(range(len(case['var_lines']))), 'idx': False})
    if case['circ_lines']:
        lay['files'].append({'circ': True, 'lines': list(range(len(case['circ_lines']))), 'idx': False})
    return lay


def random_layout(rng, case, allow_index_dir=True):
    """Random partition into files, order inside and between files, idx subset, raw vs index dir."""
    files = []
    for is_circ, lines, maxf in ((False, case['var_lines'], 5), (True, case['circ_lines'], 3)):
        n = len(lines)
        if not n:
            continue
        nf = rng.randint(1, min(maxf, n))
        idx = list(range(n))
        mode = rng.choice(['contiguous', 'interleaved', 'by_tx'])
        if mode == 'interleaved':
            rng.shuffle(idx)
        elif mode == 'by_tx':
            txs = sorted({workload.line_tx_id(lines[i]) for i in idx})
            rng.shuffle(txs)
            rank = {t: k for k, t in enumerate(txs)}
            idx.sort(key=lambda i: (rank[workload.line_tx_id(lines[i])], rng.random()))
        # cut into nf non-empty chunks, or deal round robin
        if rng.random() < 0.5:
            cuts = sorted(rng.sample(range(1, n), nf - 1)) if nf > 1 else []
            parts = [idx[a:b] for a, b in zip([0] + cuts, cuts + [n])]
        else:
            parts = [idx[k::nf] for k in range(nf)]
        for p in parts:
            if p:
                files.append({'circ': is_circ, 'lines': p, 'idx': rng.random() < 0.4,
                              'utf8': rng.random() < 0.3})
    rng.shuffle(files)
    index_dir = False
    if allow_index_dir:
        u = rng.random()
        index_dir = True if u < 0.3 else 'foreign+update' if u < 0.38 else 'foreign' if u < 0.44 else False
    return {'files': files, 'index_dir': index_dir}


def foreign_config(config):
    """Cleavage parameters that differ from ``config`` in exactly one digestion field (chosen by what the
    parameters are, not by a PRNG, so that it needs no replay state)."""
    c = dict(config)
    if c['cleavage_rule'] == 'trypsin':
        c['cleavage_exception'] = None if c.get('cleavage_exception') else 'trypsin_exception'
    elif c['miscleavage'] >= 2:
        c['max_length'] = c['max_length'] + 5
    else:
        c['miscleavage'] = c['miscleavage'] + 1
    return c


class Scratch:
    """Per-case scratch directory (removed on exit)."""
    def __init__(self, prefix='case_'):
        root = os.environ.get('VERIF_SCRATCH') or None
        self.path = Path(tempfile.mkdtemp(prefix=prefix, dir=root))

    def __enter__(self):
        return self.path

    def __exit__(self, *a):
        shutil.rmtree(self.path, ignore_errors=True)
        return False


class LayoutFailure(Exception):
    """A real CLI step used to build a layout (indexGVF, generateIndex, updateIndex) failed: product behaviour,
    reported by the engines as an outcome of the perturbed execution, never a harness crash."""
    def __init__(self, stage, exc):
        super().__init__(f'{stage}: {type(exc).__name__}: {str(exc)[:200]}')
        self.stage = stage
        self.exc_name = type(exc).__name__


def _cli(stage, f, *a, **k):
    try:
        return f(*a, **k)
    except (Exception, SystemExit) as e:  # pylint: disable=broad-except
        raise LayoutFailure(stage, e) from e


def materialise(case, layout, workdir, tag):
    """Write reference + GVF files for one execution.  Returns (ref, files)."""
    workdir = Path(workdir)
    refdir = workdir / '_reference'
    if not (refdir / 'genome.fasta').exists():
        cvrun.write_reference(case['texts'], refdir)
    ref = {'genome_fa': str(refdir / 'genome.fasta'), 'gtf': str(refdir / 'annotation.gtf'),
           'proteome_fa': str(refdir / 'proteome.fasta')}
    if layout.get('index_dir') in ('foreign', 'foreign+update'):
        # a directory generated for ANOTHER cleavage-parameter set; 'foreign+update' then registers the run's own
        # parameters with the real updateIndex.  Without the update the run must refuse the directory.
        idir = workdir / ('_index_' + layout['index_dir'].replace('+', '_'))
        if not (idir / 'metadata.json').exists():
            _cli('generateIndex', cvrun.build_index_dir, ref, idir, foreign_config(case['config']))
            if layout['index_dir'] == 'foreign+update':
                try:
                    _cli('updateIndex', cvrun.update_index_dir, idir, case['config'])
                except LayoutFailure as e:
                    # updateIndex refused to add the pool: the directory then holds no pool for the run's
                    # parameters and must be refused like a plain 'foreign' one
                    (idir / '_update_failed').write_text(str(e))
        ref = dict(ref, index_dir=str(idir))
        if (idir / '_update_failed').exists():
            ref['index_note'] = 'update-failed'

    elif layout.get('index_dir'):
        idir = workdir / '_index'
        if not (idir / 'metadata.json').exists():
            _cli('generateIndex', cvrun.build_index_dir, ref, idir, case['config'])
        ref = dict(ref, index_dir=str(idir))
    d = workdir / tag
    if d.exists():
        shutil.rmtree(d)
    d.mkdir(parents=True)
    files = []
    for k, f in enumerate(layout['files']):
        src = case['circ_lines'] if f['circ'] else case['var_lines']
        lines = [src[i] for i in f['lines']]
        p = d / f"{'c' if f['circ'] else 'v'}{k}.gvf"
        # (a non-ASCII path in the ##genome_fasta header line: byte offsets then differ from character offsets)
        p.write_text(workload.gvf_text(
            lines, f['circ'], genome_fasta='/data/José/références/génome.fa' if f.get('utf8') else None))
        if f.get('idx'):
            _cli('indexGVF', cvrun.build_gvf_idx, p)
        files.append(p)
    return ref, files, d / 'out.fasta'


def drop_line(case, layout_list, is_circ, i):
    """Remove record i from the case and re-index every layout (for the minimiser)."""
    key = 'circ_lines' if is_circ else 'var_lines'
    new = dict(case)
    new[key] = case[key][:i] + case[key][i + 1:]
    new_layouts = []
    for lay in layout_list:
        files = []
        for f in lay['files']:
            if f['circ'] != is_circ:
                files.append(dict(f))
                continue
            ls = [j - 1 if j > i else j for j in f['lines'] if j != i]
            if ls:
                files.append(dict(f, lines=ls))
        new_layouts.append(dict(lay, files=files))
    return new, new_layouts
