"""Driver: seeds, worker processes, violation handling (minimise, replay, known findings), evidence.

Exit codes: 0 property held on everything explored; 1 at least one VIOLATION line; 2 harness error.
"""
import argparse
import collections
import importlib
import json
import os
import re
import shutil
import subprocess
import sys
import tempfile
import time
from pathlib import Path

VERIF = Path(__file__).resolve().parent.parent
PY = sys.executable
WORKER_MAIN = str(VERIF / 'sim' / 'worker_main.py')

ENGINES = {
    'C02': 'sim.engines.cv_timeout',
    'C04': 'sim.engines.c04',
    'C06': 'sim.engines.cv_sched',
    'C07': 'sim.engines.cv_fault',
    'C11': 'sim.engines.gtf_store',
    'C12': 'sim.engines.index_store',
    'C13': 'sim.engines.gvf_store',
    'C20': 'sim.engines.decoy',
}

HASH_CLASSES = (0, 1, 2654435769, 4242424242)


def load_engine(pid):
    return importlib.import_module(ENGINES[pid])


def n_workers():
    w = int(os.environ.get('VERIF_WORKERS', '0') or 0)
    if w <= 0:
        w = min(16, os.cpu_count() or 4)
    w = max(4, (w // 4) * 4)
    return w


def worker_env(hclass):
    env = dict(os.environ)
    env['PYTHONHASHSEED'] = str(HASH_CLASSES[hclass])
    env['PYTHONPATH'] = str(VERIF)
    env['PYTHONDONTWRITEBYTECODE'] = '1'
    env['PYTHONUTF8'] = '1'
    env.pop('PYTHONWARNINGS', None)
    return env


def default_tasks(n):
    return [{'case': i, 'mode': 'main', 'hclass': i % 4} for i in range(n)]


def split_tasks(tasks, workers):
    per_class = workers // 4
    slots = collections.defaultdict(list)
    rank = collections.Counter()
    for t in tasks:
        c = t['hclass']
        s = c + 4 * (rank[c] % per_class)
        rank[c] += 1
        slots[s].append(t)
    return slots


class HarnessError(Exception):
    pass


def run_workers(pid, seed, tier, tasks, scratch, budget_s, case_timeout):
    workers = n_workers()
    slots = split_tasks(tasks, workers)
    procs = []
    for s, ts in sorted(slots.items()):
        tf = scratch / f'tasks_{s}.json'
        of = scratch / f'out_{s}.jsonl'
        tf.write_text(json.dumps(ts))
        cmd = [PY, WORKER_MAIN, 'run', pid, str(seed), tier, str(tf), str(of), str(budget_s),
               str(case_timeout)]
        ef = open(scratch / f'err_{s}.txt', 'wb')
        p = subprocess.Popen(cmd, env=worker_env(s % 4), stdout=subprocess.DEVNULL, stderr=ef,
                             cwd=str(VERIF))
        procs.append((s, p, of, ef))
    results = []
    deadline = time.time() + budget_s + case_timeout + 120
    failed = []
    for s, p, of, ef in procs:
        try:
            rc = p.wait(timeout=max(1, deadline - time.time()))
        except subprocess.TimeoutExpired:
            p.kill()
            rc = -9
        ef.close()
        if rc != 0:
            err = (scratch / f'err_{s}.txt').read_text(errors='replace')[-3000:]
            failed.append((s, rc, err))
        if of.exists():
            with open(of) as h:
                for line in h:
                    line = line.strip()
                    if line:
                        results.append(json.loads(line))
    if failed:
        msg = '\n'.join(f'worker {s} exit {rc}\n{err}' for s, rc, err in failed)
        raise HarnessError(msg)
    results.sort(key=lambda r: (r['task']['case'], r['task']['mode']))
    return results, workers


# ---------------------------------------------------------------------------------------------
# known findings
# ---------------------------------------------------------------------------------------------

def load_known():
    f = VERIF / 'known_findings.json'
    if not f.exists():
        return {'open': [], 'fixed': []}
    return json.loads(f.read_text())


def match_known(known, v):
    for k in known.get('open', []):
        if k['property'] != v['property']:
            continue
        if k.get('clause') and k['clause'] != v['clause']:
            continue
        if re.search(k['signature_regex'], v['signature']):
            return k
    return None


# ---------------------------------------------------------------------------------------------
# violations
# ---------------------------------------------------------------------------------------------

def sub(cmd, hclass=0, timeout=900):
    try:
        p = subprocess.run(cmd, env=worker_env(hclass), cwd=str(VERIF), capture_output=True, text=True,
                           timeout=timeout)
        return p.returncode, p.stdout, p.stderr
    except subprocess.TimeoutExpired as e:
        return -9, (e.stdout or b'').decode(errors='replace') if isinstance(e.stdout, bytes) else (e.stdout or ''), 'timeout'


def replay_file(path, timeout=3600):
    rep = json.loads(Path(path).read_text())
    rc, out, err = sub([PY, WORKER_MAIN, 'replay', str(path)], rep.get('hclass', 0), timeout)
    sigs = [json.loads(l[len('REPLAY-VIOLATION '):]) for l in out.splitlines()
            if l.startswith('REPLAY-VIOLATION ')]
    return rc, sigs, out, err


def handle_violations(pid, violations, do_minimise=True):
    """Returns (n_reported, lines, known_hit)."""
    known = load_known()
    groups = collections.OrderedDict()
    for v in violations:
        groups.setdefault((v['clause'], v['signature']), []).append(v)
    outdir = VERIF / 'replays' / pid
    outdir.mkdir(parents=True, exist_ok=True)
    reported = 0
    known_hit = collections.Counter()
    lines = []
    harness_problem = False
    full = 0
    for (clause, signature), vs in groups.items():
        v = vs[0]
        k = match_known(known, v)
        dig = v.get('digest') or 'x'
        import hashlib
        sig_h = hashlib.sha256(signature.encode()).hexdigest()[:6]
        name = re.sub(r'[^A-Za-z0-9_.-]+', '_', f'{clause}-{dig}-{sig_h}')[:90]
        path = outdir / f'{name}.json'
        path.write_text(json.dumps(v, indent=1, sort_keys=True, default=str))
        final = path
        if k is not None:
            known_hit[k['id']] += len(vs)
            continue
        full += 1
        if full <= 3:
            if do_minimise:
                rc, out, err = sub([PY, WORKER_MAIN, 'minimise', str(path)], v.get('hclass', 0), 600)
                mp = Path(str(path)[:-5] + '.min.json')
                if rc == 0 and mp.exists():
                    final = mp
            rc, sigs, out, err = replay_file(final)
            same = [s for s in sigs if s['clause'] == clause]
            if rc != 1 or not same:
                if final != path:
                    rc, sigs, out, err = replay_file(path)
                    same = [s for s in sigs if s['clause'] == clause]
                    final = path
                if rc != 1 or not same:
                    harness_problem = True
                    lines.append(f'HARNESS-ERROR property={pid} clause={clause} replay of {final} did not '
                                 f'reproduce (rc={rc}) {err[-500:]}')
                    continue
        reported += 1
        lines.append(f'VIOLATION property={pid} replay={final}')
        lines.append(f'  clause={clause} signature={signature} occurrences={len(vs)}')
        d = v.get('detail')
        if d:
            lines.append('  detail=' + json.dumps(d, default=str)[:600])
    for k in known.get('open', []):
        if known_hit.get(k['id']):
            lines.append(f"KNOWN-FINDING: property={k['property']} {k['what']} "
                         f"(hit {known_hit[k['id']]}x this run)")
    return reported, lines, dict(known_hit), harness_problem


# ---------------------------------------------------------------------------------------------
# evidence
# ---------------------------------------------------------------------------------------------

def write_evidence(pid, tier, seed, eng, results, wall, n_viol, workers, known_hit, extra=None):
    ev_dir = VERIF / 'evidence'
    ev_dir.mkdir(exist_ok=True)
    evaluations = sum(r.get('executions', 0) for r in results)
    sigs = set()
    for r in results:
        for s in r.get('signatures', []):
            sigs.add(json.dumps(s, sort_keys=True, default=str))
    faults = collections.Counter()
    probes = collections.Counter()
    steps = 0
    sim_seconds = 0
    invalid = 0
    absorbed = 0
    for r in results:
        faults.update(r.get('faults', {}))
        probes.update(r.get('probes', {}))
        steps += r.get('steps', 0)
        sim_seconds += r.get('sim_seconds', 0)
        invalid += 1 if r.get('invalid') else 0
        absorbed += r.get('absorbed', 0)
    samples = [r['sample'] for r in results if r.get('sample')][:3]
    if not samples:
        samples = [{'task': r['task']} for r in results[:1]]
    cases = len(results)
    from sim import boot
    comp = None
    try:
        comp = boot.components()
    except Exception as e:  # pylint: disable=broad-except
        comp = {'error': str(e)}
    stubs = getattr(eng, 'STUBS', [])
    coverage = {
        'evaluations': evaluations,
        'distinct_nontrivial': len(sigs),
        'rule': getattr(eng, 'RULE', ''),
        'samples': samples,
        'cases': cases,
        'invalid_workload_cases': invalid,
        'absorbed_fault_executions_discarded': absorbed,
        'fault_kinds_fired': dict(sorted(faults.items())),
        'probes': dict(sorted(probes.items())),
        'probes_stuck_at_zero': sorted(p for p in getattr(eng, 'PROBES', []) if not probes.get(p)),
        'line_event_steps': steps,
        'simulated_seconds': sim_seconds,
        'runs_per_hour': round(evaluations / wall * 3600) if wall > 0 else 0,
        'seeds_per_hour': round(cases / wall * 3600) if wall > 0 else 0,
        'workers': workers,
        'components': {'real_and_altered': comp, 'stubs': stubs},
        'known_findings_hit': known_hit,
    }
    if extra:
        coverage.update(extra)
    ev = {
        'property_id': pid, 'tier': tier, 'seed': seed, 'level': 'exploration',
        'coverage': coverage,
        'assumptions': getattr(eng, 'ASSUMPTIONS', []),
        'wall_s': round(wall, 2), 'violations': n_viol,
    }
    (ev_dir / f'{pid}.json').write_text(json.dumps(ev, indent=1, sort_keys=True, default=str))
    return ev


# ---------------------------------------------------------------------------------------------
# main
# ---------------------------------------------------------------------------------------------

def ensure_hashseed():
    if os.environ.get('PYTHONHASHSEED') != '0':
        env = dict(os.environ)
        env['PYTHONHASHSEED'] = '0'
        os.execve(PY, [PY] + sys.argv, env)


def check(pid, tier, seed):
    t0 = time.time()
    print(f'VERIF_SEED={seed} property={pid} tier={tier}', flush=True)
    eng = load_engine(pid)
    n = eng.n_cases(tier)
    env_n = os.environ.get('VERIF_CASES')
    if env_n:
        n = int(env_n)
    tasks = eng.tasks(seed, tier, n) if hasattr(eng, 'tasks') else default_tasks(n)
    budget_s = float(os.environ.get('VERIF_BUDGET_S', eng.BUDGET_S[tier]))
    case_timeout = getattr(eng, 'CASE_TIMEOUT_S', 300)
    scratch_root = os.environ.get('VERIF_SCRATCH')
    scratch = Path(tempfile.mkdtemp(prefix=f'verif_{pid}_', dir=scratch_root))
    try:
        try:
            results, workers = run_workers(pid, seed, tier, tasks, scratch, budget_s, case_timeout)
        except HarnessError as e:
            print(f'HARNESS-ERROR property={pid}\n{e}', flush=True)
            return 2
        violations = []
        for r in results:
            for v in r.get('violations', []):
                if v['property'] == pid:
                    violations.append(v)
        extra = {}
        if hasattr(eng, 'aggregate'):
            more, extra = eng.aggregate(seed, tier, results)
            violations.extend(v for v in more if v['property'] == pid)
        done = len([r for r in results if r['task']['mode'] == 'main'])
        extra['cases_planned'] = len([t for t in tasks if t['mode'] == 'main'])
        extra['cases_completed'] = done
        if done == 0:
            print(f'HARNESS-ERROR property={pid} no case completed', flush=True)
            return 2
        reported, lines, known_hit, harness_problem = handle_violations(pid, violations)
        for l in lines:
            print(l, flush=True)
        wall = time.time() - t0
        if os.environ.get('VERIF_NO_EVIDENCE'):
            print(f'property={pid} cases={done} violations={reported} (no evidence written: VERIF_NO_EVIDENCE)')
            return 1 if reported else (2 if harness_problem else 0)
        ev = write_evidence(pid, tier, seed, eng, results, wall, reported, workers, known_hit, extra)
        c = ev['coverage']
        print(f"property={pid} cases={done} executions={c['evaluations']} distinct={c['distinct_nontrivial']} "
              f"violations={reported} invalid={c['invalid_workload_cases']} wall={wall:.1f}s", flush=True)
        # a violation confirmed by its replay decides the exit code; a replay that did not reproduce is reported
        # (HARNESS-ERROR line) and makes the run exit 2 only if nothing else was confirmed
        if reported:
            return 1
        return 2 if harness_problem else 0
    finally:
        shutil.rmtree(scratch, ignore_errors=True)


def main():
    ensure_hashseed()
    ap = argparse.ArgumentParser()
    ap.add_argument('property')
    ap.add_argument('--tier', default=os.environ.get('VERIF_TIER', 'quick'), choices=['quick', 'thorough'])
    ap.add_argument('--replay', default=None)
    ap.add_argument('--seed', type=int, default=None)
    args = ap.parse_args()
    seed = args.seed if args.seed is not None else int(os.environ.get('VERIF_SEED', '0') or 0)
    if args.property == 'selftest':
        from sim import selftest
        return selftest.main(seed, args.tier)
    if args.property not in ENGINES:
        print(f'unknown property {args.property}; claimed: {sorted(ENGINES)}')
        return 2
    if args.replay:
        rc, sigs, out, err = replay_file(args.replay)
        sys.stdout.write(out)
        if rc == 1:
            print(f'VIOLATION property={args.property} replay={args.replay}')
            return 1
        if rc != 0:
            sys.stderr.write(err[-3000:])
            return 2
        return 0
    return check(args.property, args.tier, seed)


if __name__ == '__main__':
    sys.exit(main())
