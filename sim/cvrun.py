"""In-process execution of the real callVariant under the simulator's seams.

Seams attached here (all by replacing module attributes of the imported working tree):
  SimPool       -> call_variant_peptide.ParallelPool
  VirtualAlarm  -> cli.common.signal
  UnitFault     -> call_peptide_main / call_peptide_fusion / call_peptide_circ_rna wrappers
  order seam    -> reset points at gather / wrapper / unit / canonical entry
  cache knob    -> GTFPointer.*_CACHE_SIZE
"""
import argparse
import contextlib
import io
import os
import pickle
import random
import sys
import traceback
from pathlib import Path

from sim import boot

boot.boot()

# pylint: disable=wrong-import-position
import moPepGen.cli.call_variant_peptide  # noqa
import moPepGen.cli.common  # noqa
import moPepGen.gtf.GTFPointer  # noqa
from moPepGen import seqvar
import moPepGen.cli.index_gvf  # noqa
import moPepGen.cli.generate_index  # noqa

cvp = sys.modules['moPepGen.cli.call_variant_peptide']
common_mod = sys.modules['moPepGen.cli.common']
gtfptr = sys.modules['moPepGen.gtf.GTFPointer']
_index_gvf_mod = sys.modules['moPepGen.cli.index_gvf']
_gen_index_mod = sys.modules['moPepGen.cli.generate_index']

UNITS = ('call_peptide_main', 'call_peptide_fusion', 'call_peptide_circ_rna')
UNIT_KIND = {'call_peptide_main': 'variant', 'call_peptide_fusion': 'fusion',
             'call_peptide_circ_rna': 'circRNA'}

# pristine callables, captured once (re-captured by ``refresh_originals`` for self-test mutants)
ORIG = {}


def refresh_originals():
    ORIG.clear()
    for n in UNITS + ('call_canonical_peptides', 'call_variant_peptides_wrapper', 'caller_reducer',
                      'ParallelPool', 'TallyTable'):
        ORIG[n] = getattr(cvp, n)
    ORIG['gather'] = cvp.VariantPeptideCaller.gather_data_for_call_variant
    ORIG['pool_getitem'] = seqvar.VariantRecordPoolOnDisk.__getitem__
    ORIG['signal'] = common_mod.signal
    ORIG['gene_cache'] = gtfptr.GENE_DICT_CACHE_SIZE
    ORIG['tx_cache'] = gtfptr.TX_DICT_CACHE_SIZE


refresh_originals()


class InjectedFault(Exception):
    """Raised by the simulator in the interior of a processing unit."""


class StepCap(Exception):
    """Raised (persistently, at every further line event) once a traced attempt exceeds the step cap."""


EXC_CLASSES = {'ValueError': ValueError, 'KeyError': KeyError, 'RuntimeError': RuntimeError,
               'AssertionError': AssertionError, 'IndexError': IndexError, 'TimeoutError': TimeoutError,
               'InjectedFault': InjectedFault}


def _traced_file(fn):
    return 'moPepGen' in fn


def _short(fn):
    i = fn.find('moPepGen/')
    if i >= 0:
        return fn[i + 9:]
    i = fn.find('/Bio/')
    return fn[i + 1:] if i >= 0 else os.path.basename(fn)


# ---------------------------------------------------------------------------------------------
# SimPool
# ---------------------------------------------------------------------------------------------

class SimPool:
    """Stub for pathos ParallelPool: pickle isolation, PRNG-chosen execution order, worker exception
    becomes a ``None`` result (what ppft does)."""
    def __init__(self, run, ncpus):
        self.run = run
        self.ncpus = ncpus

    def map(self, f, items):
        items = list(items)
        run = self.run
        order = list(range(len(items)))
        run.pool_rng.shuffle(order)
        results = [None] * len(items)
        run.batches.append({'size': len(items), 'tx': [d['tx_id'] for d in items], 'order': order})
        for j in order:
            item = pickle.loads(pickle.dumps(items[j]))
            try:
                r = f(item)
                results[j] = pickle.loads(pickle.dumps(r))
            except Exception as e:  # pylint: disable=broad-except
                run.worker_errors.append((items[j]['tx_id'], type(e).__name__, str(e)[:200]))
                results[j] = None
        return results


# ---------------------------------------------------------------------------------------------
# VirtualAlarm
# ---------------------------------------------------------------------------------------------

STAGES = ('create_variant_graph', 'create_variant_circ_graph', 'fit_into_codons', 'translate',
          'create_cleavage_graph', 'call_variant_peptides', 'call_peptide_fusion', 'call_peptide_circ_rna',
          'call_peptide_main', 'call_canonical_peptides')


# the stage functions live in these files (``translate`` etc. are also method names of nodes and sequences)
STAGE_FILES = ('ThreeFrameTVG.py', 'ThreeFrameCVG.py', 'PeptideVariantGraph.py', 'call_variant_peptide.py')


class FakeSignal:
    """What cli.common sees as the ``signal`` module.

    ``plan`` maps (tx_id, attempt index) -> k: the handler is called at the k-th line event of that attempt.
    ``count_all`` traces every attempt without firing (to measure attempt lengths)."""
    SIGALRM = 14

    def __init__(self, run, plan=None, count_all=False, line_cap=None):
        self.run = run
        self.plan = plan or {}
        self.count_all = count_all
        self.line_cap = line_cap
        self.handler = None
        self.armed = False
        self.lines = 0
        self.k = None
        self.cur = None

    def signal(self, signum, handler):
        self.handler = handler

    def alarm(self, seconds):
        run = self.run
        if seconds == 0:
            if self.armed:
                sys.settrace(None)
                self.armed = False
                run.attempt_lines.append((self.cur, self.lines))
            return 0
        tx = run.current_tx
        att = run.attempt_no.get(tx, 0)
        run.attempt_no[tx] = att + 1
        self.cur = (tx, att)
        run.attempts.append(self.cur)
        k = self.plan.get(self.cur)
        if k is None:
            k = self.plan.get(f'{tx}#{att}')
        self.k = k
        if k is None and not self.count_all:
            return 0
        self.lines = 0
        self.armed = True
        fs = self

        def local(frame, event, arg):
            if event == 'line':
                fs.lines += 1
                if fs.line_cap and fs.lines > fs.line_cap:
                    run.step_capped = True
                    raise StepCap(f'attempt exceeded {fs.line_cap} line events')
                if fs.lines == fs.k:
                    code = frame.f_code
                    run.alarm_fired.append({'tx': tx, 'attempt': att, 'k': fs.k,
                                            'site': f'{_short(code.co_filename)}:{frame.f_lineno}',
                                            'func': code.co_name})
                    run.sim_seconds += seconds
                    fs.handler(14, frame)
            return local

        stages = run.stage_marks.setdefault(f'{tx}#{att}', [])

        def glob(frame, event, arg):
            fn = frame.f_code.co_filename
            if _traced_file(fn):
                if fs.count_all and frame.f_code.co_name in STAGES and os.path.basename(fn) in STAGE_FILES:
                    stages.append((frame.f_code.co_name, fs.lines))
                return local
            return None
        sys.settrace(glob)
        return 0


# ---------------------------------------------------------------------------------------------
# one execution
# ---------------------------------------------------------------------------------------------

class Run:
    """Mutable record of one simulated execution (everything here is derived deterministically)."""
    def __init__(self):
        self.batches = []
        self.worker_errors = []
        self.attempts = []
        self.attempt_no = {}
        self.attempt_lines = []
        self.stage_marks = {}
        self.alarm_fired = []
        self.sim_seconds = 0
        self.current_tx = None
        self.units = []            # (kind, tx_id, unit_id, n_lines or None, n_peptides or None)
        self.fault_fired = []
        self.fault_absorbed = []
        self.gathered = []         # (tx_id, dispatched?)
        self.tally = None
        self.pool_rng = random.Random(0)
        self.wrapper_results = {}  # tx_id -> list of peptide strings returned by caller_reducer
        self.final_params = {}     # tx_id -> (max_variants_per_node, additional_variants_per_misc)
        self.exc = None
        self.exc_tb = None
        self.ok = False
        self.fasta = None
        self.table = None
        self.fasta_exists = None
        self.step_capped = False
        self.wall_capped = False
        self.unit_peptides = {}    # 'kind|tx|uid' -> peptide sequences the unit returned
        self.natural_failed = []   # ('kind|tx|uid', exception class) of units that raised without injection


DEFAULT_CONFIG = {
    'cleavage_rule': 'trypsin', 'cleavage_exception': None, 'miscleavage': 2, 'min_mw': 500.,
    'min_length': 7, 'max_length': 25,
    'selenocysteine_termination': True, 'w2f_reassignment': True, 'coding_novel_orf': False,
    'noncanonical_transcripts': False, 'backsplicing_only': False,
    'max_variants_per_node': [7], 'additional_variants_per_misc': [2],
    'min_nodes_to_collapse': 30, 'naa_to_collapse': 5, 'max_adjacent_as_mnv': 2,
    'invalid_protein_as_noncoding': False, 'threads': 1, 'skip_failed': False,
    'timeout_seconds': 1800, 'reference_source': None,
}


def make_args(ref, files, out_fasta, config):
    c = dict(DEFAULT_CONFIG)
    c.update(config)
    return argparse.Namespace(
        command='callVariant',
        index_dir=Path(ref['index_dir']) if ref.get('index_dir') else None,
        genome_fasta=Path(ref['genome_fa']) if not ref.get('index_dir') else None,
        annotation_gtf=Path(ref['gtf']) if not ref.get('index_dir') else None,
        proteome_fasta=Path(ref['proteome_fa']) if not ref.get('index_dir') else None,
        reference_source=c['reference_source'],
        input_path=[Path(f) for f in files], output_path=Path(out_fasta), graph_output_dir=None,
        max_adjacent_as_mnv=c['max_adjacent_as_mnv'], backsplicing_only=c['backsplicing_only'],
        coding_novel_orf=c['coding_novel_orf'],
        selenocysteine_termination=c['selenocysteine_termination'],
        w2f_reassignment=c['w2f_reassignment'],
        max_variants_per_node=list(c['max_variants_per_node']),
        additional_variants_per_misc=list(c['additional_variants_per_misc']),
        min_nodes_to_collapse=c['min_nodes_to_collapse'], naa_to_collapse=c['naa_to_collapse'],
        cleavage_rule=c['cleavage_rule'], cleavage_exception=c['cleavage_exception'],
        miscleavage=str(c['miscleavage']), min_mw=str(c['min_mw']), min_length=c['min_length'],
        max_length=c['max_length'], quiet=True, debug_level=1,
        noncanonical_transcripts=c['noncanonical_transcripts'],
        invalid_protein_as_noncoding=c['invalid_protein_as_noncoding'], threads=c['threads'],
        timeout_seconds=c['timeout_seconds'], skip_failed=c['skip_failed'])


def unit_id(name, kwargs):
    if name == 'call_peptide_main':
        return kwargs['tx_id']
    if name == 'call_peptide_fusion':
        return kwargs['variant'].id
    return kwargs['record'].id


def parse_fasta(path):
    out = {}
    dup = []
    seq, entries = None, None
    with open(path, 'rt') as h:
        cur = []
        title = None
        for line in h:
            line = line.rstrip('\n')
            if line.startswith('>'):
                if title is not None:
                    s = ''.join(cur)
                    if s in out:
                        dup.append(s)
                    out.setdefault(s, []).extend(title.split(' '))
                title = line[1:]
                cur = []
            else:
                cur.append(line)
        if title is not None:
            s = ''.join(cur)
            if s in out:
                dup.append(s)
            out.setdefault(s, []).extend(title.split(' '))
    return out, dup


def parse_table(path):
    rows = []
    with open(path, 'rt') as h:
        for line in h:
            if line.startswith('#'):
                continue
            rows.append(line.rstrip('\n').split('\t'))
    return rows


class Seams:
    """Context manager installing and removing every seam for one execution."""
    def __init__(self, run, sched, faults, alarm_plan, count_units, count_attempts, skip_units,
                 line_cap=None):
        self.line_cap = line_cap
        self.run = run
        self.sched = sched
        self.faults = faults or {}
        self.alarm_plan = alarm_plan
        self.count_units = count_units
        self.count_attempts = count_attempts
        self.skip_units = skip_units or set()

    def __enter__(self):
        run = self.run
        sched = self.sched
        run.pool_rng = random.Random(sched.get('pool_seed', 0))
        boot.ORDER.reset(sched.get('salt', 0))
        gtfptr.GENE_DICT_CACHE_SIZE = sched.get('gene_cache', ORIG['gene_cache'])
        gtfptr.TX_DICT_CACHE_SIZE = sched.get('tx_cache', ORIG['tx_cache'])
        cvp.ParallelPool = lambda ncpus: SimPool(run, ncpus)
        common_mod.signal = FakeSignal(run, self.alarm_plan, self.count_attempts, self.line_cap)

        class Tally(ORIG['TallyTable']):
            def __init__(self, logger):
                super().__init__(logger)
                run.tally = self
        cvp.TallyTable = Tally

        faults, skip_units, count_units = self.faults, self.skip_units, self.count_units

        def mk_unit(name):
            orig = ORIG[name]
            kind = UNIT_KIND[name]

            def unit(*a, **k):
                boot.ORDER.reset()
                uid = unit_id(name, k)
                key = f'{kind}|{run.current_tx}|{uid}'
                if key in skip_units:
                    run.units.append((kind, run.current_tx, uid, None, 'skipped'))
                    return {}, None, None
                f = faults.get(key)
                if f is None and not count_units:
                    try:
                        r = orig(*a, **k)
                    except Exception as e:  # pylint: disable=broad-except
                        # a unit that fails by itself (no injection): recorded, then passed on untouched
                        run.natural_failed.append((key, type(e).__name__))
                        raise
                    run.units.append((kind, run.current_tx, uid, None, len(r[0])))
                    run.unit_peptides[key] = sorted(str(x) for x in r[0])
                    return r
                if f is not None and f.get('once') and any(x['unit'] == key for x in run.fault_fired):
                    # one-shot fault already delivered (the retry of the unit runs undisturbed)
                    r = orig(*a, **k)
                    run.units.append((kind, run.current_tx, uid, None, len(r[0])))
                    run.unit_peptides[key] = sorted(str(x) for x in r[0])
                    return r
                kfire = f['k'] if f else None
                if f is not None and kfire == 0:
                    run.fault_fired.append({'unit': key, 'k': 0, 'site': 'entry', 'exc': f['exc']})
                    raise EXC_CLASSES[f['exc']]('injected at unit entry')
                st = {'n': 0, 'fired': False}
                prev = sys.gettrace()

                cap = self.line_cap

                def local(frame, event, arg):
                    if event == 'line':
                        st['n'] += 1
                        if cap and st['n'] > cap:
                            run.step_capped = True
                            raise StepCap(f'unit exceeded {cap} line events')
                        if st['n'] == kfire and not st['fired']:
                            st['fired'] = True
                            run.fault_fired.append({
                                'unit': key, 'k': kfire, 'exc': 'InjectedFault',
                                'site': f'{_short(frame.f_code.co_filename)}:{frame.f_lineno}'})
                            raise InjectedFault('injected inside unit')
                    return local

                def glob(frame, event, arg):
                    return local if _traced_file(frame.f_code.co_filename) else None
                sys.settrace(glob)
                try:
                    r = orig(*a, **k)
                finally:
                    sys.settrace(prev)
                if st['fired']:
                    run.fault_absorbed.append(key)
                run.units.append((kind, run.current_tx, uid, st['n'], len(r[0])))
                run.unit_peptides[key] = sorted(str(x) for x in r[0])
                return r
            return unit
        for n in UNITS:
            setattr(cvp, n, mk_unit(n))

        def canon(*a, **k):
            boot.ORDER.reset()
            return ORIG['call_canonical_peptides'](*a, **k)
        cvp.call_canonical_peptides = canon

        orig_gather = ORIG['gather']
        gather_faults = {k.split('|', 2)[1] for k in faults if k.startswith('gather|')}

        def gather(self_, tx_id, pool):
            boot.ORDER.reset()
            run.current_tx = tx_id
            if f'gather|{tx_id}|{tx_id}' in skip_units:
                run.gathered.append((tx_id, False))
                return None
            if tx_id in gather_faults:
                # designed ValueError exit of data gathering ("invalid transcript")
                orig_getitem = type(pool).__getitem__

                def bad_getitem(p, key):
                    if key == tx_id:
                        run.fault_fired.append({'unit': f'gather|{tx_id}|{tx_id}', 'k': 0,
                                                'site': 'pool[tx_id]', 'exc': 'ValueError'})
                        raise ValueError('injected: invalid transcript series')
                    return orig_getitem(p, key)
                type(pool).__getitem__ = bad_getitem
                try:
                    d = orig_gather(self_, tx_id, pool)
                finally:
                    type(pool).__getitem__ = orig_getitem
            else:
                d = orig_gather(self_, tx_id, pool)
            run.gathered.append((tx_id, bool(d)))
            return d
        cvp.VariantPeptideCaller.gather_data_for_call_variant = gather

        orig_reducer = ORIG['caller_reducer']

        def reducer(dispatch):
            run.current_tx = dispatch['tx_id']
            r = orig_reducer(dispatch)
            try:
                run.wrapper_results[dispatch['tx_id']] = sorted(str(s) for s in r[0])
            except Exception:  # pylint: disable=broad-except
                pass
            return r
        cvp.caller_reducer = reducer

        orig_wrapper = ORIG['call_variant_peptides_wrapper']

        def wrapper(*a, **k):
            boot.ORDER.reset()
            cp = k.get('cleavage_params')
            if cp is not None:
                run.final_params[k.get('tx_id')] = (cp.max_variants_per_node,
                                                    cp.additional_variants_per_misc)
            return orig_wrapper(*a, **k)
        cvp.call_variant_peptides_wrapper = wrapper
        return self

    def __exit__(self, *exc):
        sys.settrace(None)
        for n in UNITS + ('call_canonical_peptides', 'call_variant_peptides_wrapper', 'caller_reducer',
                          'ParallelPool', 'TallyTable'):
            setattr(cvp, n, ORIG[n])
        cvp.VariantPeptideCaller.gather_data_for_call_variant = ORIG['gather']
        common_mod.signal = ORIG['signal']
        gtfptr.GENE_DICT_CACHE_SIZE = ORIG['gene_cache']
        gtfptr.TX_DICT_CACHE_SIZE = ORIG['tx_cache']
        return False


class WallBudget(Exception):
    """Raised (repeatedly) in the running product code once one execution exceeds the wall budget."""


class WallGuard:
    """Last-resort bound on one execution: the REAL interval timer (the product only sees FakeSignal, so SIGALRM
    is free for the harness).  A capped execution is discarded by the engines (``run.wall_capped``), never judged:
    bounded runs only.  The budget is generous (default 120 s, typical executions take < 5 s; a case holds at most 8 executions and the per-case watchdog is 20 min), so it does not
    interfere with determinism except for inputs that would otherwise hang the batch."""
    def __init__(self, run):
        self.run = run
        self.budget = float(os.environ.get('VERIF_EXEC_WALL_S', '120'))

    def __enter__(self):
        import signal as real_signal
        self.sig = real_signal
        run = self.run

        def handler(signum, frame):
            run.wall_capped = True
            real_signal.setitimer(real_signal.ITIMER_REAL, 0.5)     # keep raising until the execution unwinds
            raise WallBudget('execution exceeded the wall budget')
        try:
            self.prev = real_signal.signal(real_signal.SIGALRM, handler)
            real_signal.setitimer(real_signal.ITIMER_REAL, self.budget)
        except ValueError:       # not in the main thread
            self.prev = None
        return self

    def __exit__(self, *exc):
        self.sig.setitimer(self.sig.ITIMER_REAL, 0)
        if self.prev is not None:
            self.sig.signal(self.sig.SIGALRM, self.prev)
        return False


def run_callvariant(ref, files, out_fasta, config, sched=None, faults=None, alarm_plan=None,
                    count_units=False, count_attempts=False, skip_units=None, line_cap=None):
    """Execute the real ``call_variant_peptide`` once.  Never raises for product exceptions."""
    run = Run()
    sched = sched or {}
    out_fasta = Path(out_fasta)
    table = out_fasta.parent / f'{out_fasta.stem}_peptide_table.txt'
    for p in (out_fasta, table):
        if p.exists():
            p.unlink()
    args = make_args(ref, files, out_fasta, config)
    with Seams(run, sched, faults, alarm_plan, count_units, count_attempts, skip_units, line_cap), \
            WallGuard(run):
        try:
            with contextlib.redirect_stdout(io.StringIO()), contextlib.redirect_stderr(io.StringIO()):
                cvp.call_variant_peptide(args)
            run.ok = not run.wall_capped
        except SystemExit as e:
            run.exc = ('SystemExit', str(e.code))
        except Exception as e:  # pylint: disable=broad-except
            run.exc = (type(e).__name__, str(e)[:300])
            run.exc_tb = traceback.format_exc(limit=-6)
        finally:
            sys.settrace(None)
    run.fasta_exists = out_fasta.exists()
    if run.ok:
        run.fasta, run.fasta_dups = parse_fasta(out_fasta)
        run.table = parse_table(table)
    return run


# ---------------------------------------------------------------------------------------------
# helpers on the real CLI for layout building
# ---------------------------------------------------------------------------------------------

def build_gvf_idx(gvf_path):
    args = argparse.Namespace(command='indexGVF', input_path=Path(gvf_path), quiet=True, debug_level=1)
    with contextlib.redirect_stdout(io.StringIO()):
        _index_gvf_mod.index_gvf(args)


def build_index_dir(ref, out_dir, config, force=False, symlink=False):
    c = dict(DEFAULT_CONFIG)
    c.update(config)
    args = argparse.Namespace(
        command='generateIndex', genome_fasta=Path(ref['genome_fa']), annotation_gtf=Path(ref['gtf']),
        proteome_fasta=Path(ref['proteome_fa']), reference_source=c['reference_source'],
        cleavage_rule=c['cleavage_rule'], cleavage_exception=c['cleavage_exception'],
        miscleavage=str(c['miscleavage']), min_mw=str(c['min_mw']), min_length=c['min_length'],
        max_length=c['max_length'], invalid_protein_as_noncoding=c['invalid_protein_as_noncoding'],
        output_dir=Path(out_dir), gtf_symlink=symlink, force=force, quiet=True, debug_level=1)
    with contextlib.redirect_stdout(io.StringIO()):
        _gen_index_mod.generate_index(args)


def update_index_dir(index_dir, config, force=False):
    """Real ``updateIndex`` invocation (adds the canonical pool for ``config`` to an existing directory)."""
    import moPepGen.cli.update_index  # noqa  pylint: disable=import-outside-toplevel
    ui = sys.modules['moPepGen.cli.update_index']
    c = dict(DEFAULT_CONFIG)
    c.update(config)
    args = argparse.Namespace(
        command='updateIndex', index_dir=Path(index_dir), force=force, cleavage_rule=c['cleavage_rule'],
        cleavage_exception=c['cleavage_exception'], miscleavage=str(c['miscleavage']), min_mw=str(c['min_mw']),
        min_length=c['min_length'], max_length=c['max_length'], quiet=True, debug_level=1)
    with contextlib.redirect_stdout(io.StringIO()):
        ui.update_index(args)


def write_reference(texts, workdir):
    workdir = Path(workdir)
    workdir.mkdir(parents=True, exist_ok=True)
    ref = {'genome_fa': str(workdir / 'genome.fasta'), 'gtf': str(workdir / 'annotation.gtf'),
           'proteome_fa': str(workdir / 'proteome.fasta')}
    Path(ref['genome_fa']).write_text(texts['genome_fa'])
    Path(ref['gtf']).write_text(texts['gtf'])
    Path(ref['proteome_fa']).write_text(texts['proteome_fa'])
    return ref
