"""Process bootstrap for every simulated run.

* puts /repo (the current working tree) in front of sys.path, so checks always
  import the tree as it is now, never a stale installed copy;
* seam L0: Biopython-1.88 compatibility layer (MRO-relative, installed only when a
  probe shows the pristine construct is broken in this image);
* seam S8 (order seam): serial ``__hash__`` for every identity-hashed moPepGen class;
* silences the product's logger (logging never feeds an oracle).

Nothing in this module draws from a PRNG or reads a clock.
"""
import importlib
import inspect
import itertools
import logging
import os
import pkgutil
import sys
import warnings

REPO = os.environ.get('VERIF_REPO', '/repo')
HOOK_GUARD = 'MOPEPGEN_VERIF'

_BOOTED = {}


def _ensure_path():
    if sys.path[0] != REPO:
        while REPO in sys.path:
            sys.path.remove(REPO)
        sys.path.insert(0, REPO)


# ---------------------------------------------------------------------------------------------
# L0 compat layer
# ---------------------------------------------------------------------------------------------

def _mro_base(self, name):
    mro = type(self).__mro__
    for i, c in enumerate(mro):
        if c.__name__ == name:
            return mro[i + 1]
    raise TypeError(name)


def _install_compat():
    """Returns the list of constructs that had to be replaced (for the evidence files)."""
    installed = []
    from Bio.Seq import Seq
    m = importlib.import_module('moPepGen.dna.DNASeqRecord')
    a = importlib.import_module('moPepGen.aa.AminoAcidSeqRecord')
    from moPepGen.SeqFeature import FeatureLocation, MatchedLocation

    def broken_dna():
        try:
            loc = MatchedLocation(query=FeatureLocation(start=0, end=3),
                                  ref=FeatureLocation(seqname='x', start=0, end=3))
            r1 = m.DNASeqRecordWithCoordinates(Seq('AAA'), locations=[loc])
            r2 = m.DNASeqRecordWithCoordinates(Seq('CCC'), locations=[])
            _ = r1 + r2
            return False
        except TypeError:
            return True
        except Exception:  # pylint: disable=broad-except
            return False

    if broken_dna():
        def __init__(self, seq, *args, locations=None, orf=None, selenocysteine=None, **kwargs):
            _mro_base(self, 'DNASeqRecordWithCoordinates').__init__(self, seq, *args, **kwargs)
            self.locations = locations or []
            self.orf = orf
            self.selenocysteine = selenocysteine or []
        m.DNASeqRecordWithCoordinates.__init__ = __init__
        installed.append('DNASeqRecordWithCoordinates.__init__')

    def broken_aa():
        try:
            r1 = a.AminoAcidSeqRecordWithCoordinates(Seq('MKK'), locations=[])
            r2 = a.AminoAcidSeqRecordWithCoordinates(Seq('MRR'), locations=[])
            _ = r1 + r2
            return False
        except TypeError:
            return True
        except Exception:  # pylint: disable=broad-except
            return False

    if broken_aa():
        def __ainit__(self, seq, *args, locations=None, orf=None, **kwargs):
            _mro_base(self, 'AminoAcidSeqRecordWithCoordinates').__init__(self, seq, *args, **kwargs)
            self.locations = locations or []
            self.orf = orf
        a.AminoAcidSeqRecordWithCoordinates.__init__ = __ainit__
        installed.append('AminoAcidSeqRecordWithCoordinates.__init__')

    g = importlib.import_module('moPepGen.gtf.GtfIO')

    def broken_gtf():
        import io
        try:
            list(g.parse(io.StringIO('')))
            return False
        except TypeError:
            return True
        except Exception:  # pylint: disable=broad-except
            return False

    if broken_gtf():
        def _parse(handle):
            if isinstance(handle, (str, os.PathLike)):
                def it():
                    with open(handle, 'rt') as h:
                        yield from g.GtfIterator.iterate(h)
                return it()
            return g.GtfIterator.iterate(handle)
        g.parse = _parse
        installed.append('GtfIO.parse')
    return installed


# ---------------------------------------------------------------------------------------------
# order seam
# ---------------------------------------------------------------------------------------------

class OrderSeam:
    """Serial hashes for identity-hashed classes.  ``reset`` is called at scope boundaries."""
    def __init__(self):
        self.counter = itertools.count(1)
        self.uuid_counter = itertools.count(1)
        self.salt = 0
        self.patched = []
        self.uuid_modules = []

    def reset(self, salt=None):
        self.counter = itertools.count(1)
        self.uuid_counter = itertools.count(1)
        if salt is not None:
            self.salt = salt

    def uuid4(self):
        """Deterministic stand-in for uuid.uuid4 inside moPepGen.svgraph (node ids, subgraph ids): production
        draws these from os.urandom, and they end up as str keys of sets/dicts whose iteration order steers the
        graph algorithms.  Here they are a pure function of (creation order within the scope, salt)."""
        import uuid
        n = next(self.uuid_counter)
        return uuid.UUID(int=(n * 0x9E3779B97F4A7C15F39CC0605CEDC835 + self.salt * 0x100000001B3) % (1 << 128))

    def install(self):
        import moPepGen
        seam = self

        def _serial_hash(obj):
            try:
                s = obj.__dict__['_sim_serial']
            except KeyError:
                s = next(seam.counter)
                obj.__dict__['_sim_serial'] = s
            if seam.salt:
                return (s * 2654435761 + seam.salt) & 0x7fffffffffff
            return s

        mods = []
        for mi in pkgutil.walk_packages(moPepGen.__path__, 'moPepGen.'):
            if '.util' in mi.name or mi.name.endswith('__main__'):
                continue
            try:
                mods.append(importlib.import_module(mi.name))
            except Exception:  # pylint: disable=broad-except
                pass
        seen = set()
        for mod in mods:
            for _name, cls in sorted(inspect.getmembers(mod, inspect.isclass), key=lambda x: x[0]):
                if not cls.__module__.startswith('moPepGen') or cls in seen:
                    continue
                seen.add(cls)
                if cls.__hash__ is object.__hash__ and '__eq__' not in cls.__dict__ \
                        and not hasattr(cls, '__slots__') \
                        and not issubclass(cls, (BaseException, dict, list, set, tuple)):
                    try:
                        cls.__hash__ = _serial_hash
                        self.patched.append(cls.__module__ + '.' + cls.__name__)
                    except TypeError:
                        pass
        self.patched.sort()

        class _UUIDShim:
            """what the two svgraph modules see as the ``uuid`` module"""
            def __getattr__(self_, name):          # pylint: disable=no-self-argument
                import uuid
                return getattr(uuid, name)

            def uuid4(self_):                      # pylint: disable=no-self-argument
                return seam.uuid4()
        shim = _UUIDShim()
        for mod in mods:
            if mod.__name__.startswith('moPepGen.svgraph') and getattr(mod, 'uuid', None) is not None \
                    and getattr(mod.uuid, '__name__', '') == 'uuid':
                mod.uuid = shim
                self.uuid_modules.append(mod.__name__)
        return self.patched


ORDER = OrderSeam()


def boot(order_seam=True):
    """Idempotent."""
    if _BOOTED:
        return _BOOTED
    os.environ[HOOK_GUARD] = '1'
    _ensure_path()
    warnings.filterwarnings('ignore')
    import moPepGen
    repo_real = os.path.realpath(REPO)
    mod_real = os.path.realpath(os.path.dirname(os.path.dirname(moPepGen.__file__)))
    if mod_real != repo_real:
        raise RuntimeError(f'moPepGen imported from {mod_real}, expected {repo_real}')
    logging.getLogger('moPepGen').setLevel(logging.CRITICAL + 10)
    logging.getLogger('moPepGen').disabled = True
    compat = _install_compat()
    mutant = os.environ.get('VERIF_MUTANT')
    if mutant:
        # sensitivity self-test only: in-memory re-creation of a known breakage (sim/mutants.py)
        from sim import mutants
        mutants.install(mutant)
    patched = ORDER.install() if order_seam else []
    _BOOTED.update(compat=compat, order_seam_classes=len(patched), repo=repo_real, mutant=mutant)
    return _BOOTED


def components():
    """What ran real code and what did not (for evidence files)."""
    b = boot()
    return {
        'real': ['every module under /repo/moPepGen on the executed paths', 'filesystem', 'pickle'],
        'altered_by_compat_layer_L0': b['compat'],
        'altered_by_order_seam': f"__hash__ of {b['order_seam_classes']} identity-hashed moPepGen classes; "
                                 f"uuid.uuid4 as seen by {ORDER.uuid_modules} (deterministic ids)",
    }
