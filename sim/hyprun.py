"""Shared driver for the Hypothesis-stateful store engines (gtf-store, index-store, gvf-store).

Besides running the machine it keeps a log of every history (op list) executed for the case, in order.  If the
system under test carries state from one history to the next inside the process (a module-level cache, say), a
failure can depend on the histories before it; Hypothesis then cannot shrink it (it reports the run as flaky).  The
log makes such a failure reportable and replayable all the same: the replay file carries the exact sequence of
histories executed up to the first failing one, and ``replay_with_histories`` re-executes that sequence in a fresh
process.
"""
from hypothesis import settings, seed as hseed, Verbosity, HealthCheck
from hypothesis.stateful import run_state_machine_as_test


class HistoryLog:
    def __init__(self):
        self.traces = []
        self.first = None

    def new_trace(self):
        t = []
        self.traces.append(t)
        return t

    def note(self, violation):
        if self.first is None:
            self.first = {'violation': violation, 'histories': [[list(op) for op in t] for t in self.traces]}


def run(machine, hs, n_examples, steps, log, violation_cls):
    """Returns None, ('shrunk', violation) or ('unshrunk', violation)."""
    try:
        run_state_machine_as_test(
            hseed(hs)(machine),
            settings=settings(max_examples=n_examples, stateful_step_count=steps, database=None, deadline=None,
                              report_multiple_bugs=False, suppress_health_check=list(HealthCheck),
                              verbosity=Verbosity.quiet))
    except violation_cls as v:
        return ('shrunk', v)
    except Exception:  # pylint: disable=broad-except
        # Hypothesis gave up shrinking (Flaky / FlakyStrategyDefinition ...): the failure depends on more than
        # the history it was shrinking.  Report the first recorded violation with everything executed before it.
        if log.first is not None:
            return ('unshrunk', log.first['violation'])
        raise
    return None


def report_fields(kind, log, last_trace):
    """ops / histories fields of a replay file."""
    hist = log.first['histories'] if log.first else None
    if kind == 'unshrunk':
        return {'ops': hist[-1], 'histories': hist, 'shrunk_by': None,
                'note': 'not shrinkable: the failure depends on the histories executed before it in the process'}
    return {'ops': last_trace, 'histories': hist, 'shrunk_by': 'hypothesis'}


def replay_with_histories(rep, run_history, violation_cls):
    """``run_history(ops)`` executes one history and raises on a violation.  First the (shrunk) history alone; if
    that does not fail, the recorded sequence of histories."""
    try:
        run_history(rep['ops'])
    except violation_cls as v:
        return v
    for ops in rep.get('histories') or []:
        try:
            run_history(ops)
        except violation_cls as v:
            return v
    return None
