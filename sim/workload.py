"""Workload generation: references and variant records, produced as *texts* so that replay files are
self-contained and the minimiser can drop lines.

All randomness comes from the ``random.Random`` passed in (derived from VERIF_SEED); the repository's
generators use the global ``random`` module, which is seeded from that PRNG for the duration of the call
and restored afterwards.
"""
import copy
import io
import random as _global_random
from contextlib import contextmanager

from sim import boot

boot.boot()

# pylint: disable=wrong-import-position
from Bio import SeqIO
from Bio.Seq import Seq
from moPepGen import fake, aa, seqvar, circ, constant
from moPepGen.gtf import GtfIO
from moPepGen.seqvar.GVFMetadata import GVFMetadata
from moPepGen.seqvar.GVFMetadataInfo import GVF_METADATA_INFO
from moPepGen import GVF_HEADER


@contextmanager
def global_random(rng):
    """Seed the global ``random`` from ``rng`` for the duration of the block and restore after."""
    state = _global_random.getstate()
    _global_random.seed(rng.getrandbits(64))
    try:
        yield
    finally:
        _global_random.setstate(state)


# ---------------------------------------------------------------------------------------------
# references
# ---------------------------------------------------------------------------------------------

def translate_proteome(anno, genome):
    """Harness-side proteome: translation of the annotated ORFs (with U at Sec positions)."""
    proteome = aa.AminoAcidSeqDict()
    for tx_model in anno.transcripts.values():
        if not tx_model.is_protein_coding:
            continue
        tx_seq = tx_model.get_transcript_sequence(genome[tx_model.transcript.chrom])
        aas = str(tx_seq.seq[tx_seq.orf.start:tx_seq.orf.end].translate())
        for sec in tx_seq.selenocysteine:
            s = int((sec.start - tx_seq.orf.start) / 3)
            aas = aas[:s] + 'U' + aas[s + 1:]
        aas = aas.rstrip('*')
        rec = aa.AminoAcidSeqRecord(
            Seq(aas), _id=tx_model.transcript_id, name=tx_model.transcript_id,
            description=f"{tx_model.protein_id}|{tx_model.transcript_id}|{tx_model.gene_id}|XXX",
            gene_id=tx_model.gene_id, transcript_id=tx_model.transcript_id,
            protein_id=tx_model.protein_id)
        proteome[tx_model.transcript_id] = rec
    return proteome


def reference_texts(anno, genome, proteome):
    h = io.StringIO()
    GtfIO.write(h, anno)
    gtf_text = h.getvalue()
    h = io.StringIO()
    w = SeqIO.FastaIO.FastaWriter(h, record2title=lambda x: x.id)
    for r in genome.values():
        w.write_record(r)
    genome_text = h.getvalue()
    h = io.StringIO()
    w = SeqIO.FastaIO.FastaWriter(h, record2title=lambda x: x.description)
    for r in proteome.values():
        w.write_record(r)
    proteome_text = h.getvalue()
    return {'gtf': gtf_text, 'genome_fa': genome_text, 'proteome_fa': proteome_text}


def gen_reference(rng, n_genes):
    """Returns (texts, anno, genome).  anno/genome are in-memory models used only by the generator."""
    with global_random(rng):
        genome, anno = fake.fake_genome_and_annotation(n_genes)
    proteome = translate_proteome(anno, genome)
    return reference_texts(anno, genome, proteome), anno, genome


def _parse_models(texts):
    """(anno, genome) models of reference texts (through temporary files)."""
    import tempfile
    from pathlib import Path
    from moPepGen import gtf as _gtf, dna as _dna
    with tempfile.TemporaryDirectory(prefix='wl_') as d:
        d = Path(d)
        (d / 'a.gtf').write_text(texts['gtf'])
        (d / 'g.fa').write_text(texts['genome_fa'])
        anno = _gtf.GenomicAnnotation()
        anno.dump_gtf(d / 'a.gtf')
        genome = _dna.DNASeqDict()
        genome.dump_fasta(d / 'g.fa')
    return anno, genome


COMP = {'A': 'T', 'T': 'A', 'G': 'C', 'C': 'G', 'N': 'N'}


def gen_paralog_reference(rng, n_genes):
    """A generated reference plus a **paralog copy** of every gene on a second chromosome.  The copy differs from
    the original by a few single-base substitutions inside coding exons and by W>F codon changes (TGG -> TTC), so
    that (a) an SNV on the original gene that introduces the paralog's base yields peptides that are *canonical*
    (they are digestion products of the paralog's protein), and (b) W>F reassignment products of the original are
    canonical peptides of the paralog.  Returns (texts, anno, genome, mirror_lines): mirror_lines are GVF record
    lines for the SNVs of kind (a)."""
    texts, anno, genome = gen_reference(rng, n_genes)
    chrom = next(iter(genome.keys()))
    seq = str(genome[chrom].seq)
    copy_ = list(seq)
    mirrors = []          # (tx_id, gene_id, gene_pos, ref, alt)
    for tx_id, tm in anno.transcripts.items():
        if not tm.is_protein_coding or not tm.cds:
            continue
        strand = tm.transcript.strand
        tx_seq = tm.get_transcript_sequence(genome[chrom])
        s = str(tx_seq.seq)
        start, end = int(tx_seq.orf.start), int(tx_seq.orf.end)
        codons = list(range(start, end - 2, 3))
        if len(codons) < 8:
            continue
        tgg = [c for c in codons[2:-2] if s[c:c + 3] == 'TGG']
        plan = [(c, 'w2f') for c in rng.sample(tgg, min(len(tgg), 3))]
        others = [c for c in codons[2:-2] if c not in tgg]
        plan += [(c, 'snv') for c in rng.sample(others, min(len(others), rng.randint(2, 5)))]
        for c, kind in plan:
            if kind == 'w2f':
                edits = [(c + 1, 'T'), (c + 2, 'C')]
            else:
                i = c + rng.randrange(3)
                alt = rng.choice([b for b in 'ACGT' if b != s[i]])
                new_codon = s[c:i] + alt + s[i + 1:c + 3]
                if new_codon in ('TAA', 'TAG', 'TGA') or s[c:c + 3] in ('TAA', 'TAG', 'TGA', 'ATG'):
                    continue
                edits = [(i, alt)]
            for i, alt in edits:
                g = anno.coordinate_transcript_to_genomic(i, tx_id)
                copy_[g] = alt if strand == 1 else COMP[alt]
                if kind == 'snv':
                    gene_id = tm.transcript.gene_id
                    mirrors.append((tx_id, gene_id, anno.coordinate_genomic_to_gene(g, gene_id), s[i], alt, g))
    # all W codons of the copy that were not picked stay W; now also force every remaining in-frame TGG of ONE gene
    new_chrom = chrom + 'p'

    def rename(x):
        return x.replace('FAKEG0', 'FAKEG1').replace('FAKET0', 'FAKET1').replace('FAKEP0', 'FAKEP1') \
            .replace('FAKET2', 'FAKET3').replace('FAKEP2', 'FAKEP3')
    # a second isoform (same structure, own transcript / protein id) for some genes: two transcripts of one batch
    # then yield the same peptides
    twins = set()
    gtf_lines, block, gene_id = [], [], None

    def flush():
        gtf_lines.extend(block)
        if block and gene_id is not None and rng.random() < 0.4:
            twins.add(gene_id)
            gtf_lines.extend(l.replace('FAKET0', 'FAKET2').replace('FAKEP0', 'FAKEP2') for l in block)
        block.clear()
    for l in texts['gtf'].splitlines():
        if not l or l.startswith('#'):
            continue
        f = l.split('\t')
        if f[2] == 'gene':
            flush()
            gtf_lines.append(l)
            gene_id = [a.strip().split(' ', 1)[1].strip('"') for a in f[8].split(';')
                       if a.strip().startswith('gene_id ')][0]
        else:
            block.append(l)
    flush()
    par_lines = []
    for l in gtf_lines:
        if not l or l.startswith('#'):
            continue
        f = l.split('\t')
        f[0] = new_chrom
        f[8] = rename(f[8])
        par_lines.append('\t'.join(f))
    gtf2 = '\n'.join(gtf_lines + par_lines) + '\n'
    par_seq = ''.join(copy_)
    genome2 = texts['genome_fa'].rstrip('\n') + '\n>' + new_chrom + '\n' + \
        '\n'.join(par_seq[i:i + 60] for i in range(0, len(par_seq), 60)) + '\n'
    t2 = {'gtf': gtf2, 'genome_fa': genome2, 'proteome_fa': ''}
    anno2, genome_m2 = _parse_models(t2)
    # the paralog transcripts are coding iff their original is
    proteome = aa.AminoAcidSeqDict()
    for tx_id, tm in anno2.transcripts.items():
        orig = 'FAKET0' + tx_id[6:]
        tm.is_protein_coding = anno.transcripts[orig].is_protein_coding
    proteome = translate_proteome(anno2, genome_m2)
    texts2 = reference_texts(anno2, genome_m2, proteome)
    anno3, genome3 = _parse_models(texts2)
    for tx_id, tm in anno3.transcripts.items():
        tm.is_protein_coding = tx_id in proteome
    mirror_lines = []
    from moPepGen.SeqFeature import FeatureLocation
    for tx_id, gene_id, gpos, ref, alt, g in mirrors:
        gm = anno.genes[gene_id]
        rec = seqvar.VariantRecord(
            location=FeatureLocation(start=gpos, end=gpos + 1, seqname=gene_id), ref=ref, alt=alt, _type='SNV',
            _id=f'{gene_id}-{gpos}-{ref}-{alt}',
            attrs={'TRANSCRIPT_ID': tx_id, 'GENOMIC_POSITION': f'{gm.chrom}-{g}:{g + 1}', 'GENE_SYMBOL': gm.gene_name})
        mirror_lines.append(rec.to_string())
        if gene_id in twins:
            rec.attrs['TRANSCRIPT_ID'] = 'FAKET2' + tx_id[6:]
            mirror_lines.append(rec.to_string())
    return texts2, anno3, genome3, mirror_lines


# ---------------------------------------------------------------------------------------------
# variant records
# ---------------------------------------------------------------------------------------------

DNA = 'ACGT'


def _tx_gene_coords(anno, tx_id):
    """gene coordinate (strand oriented) of every transcript position"""
    tx_model = anno.transcripts[tx_id]
    gene_id = tx_model.transcript.gene_id
    n = sum(len(e.location) for e in tx_model.exon)
    out = []
    for i in range(n):
        g = anno.coordinate_transcript_to_genomic(i, tx_id)
        out.append(anno.coordinate_genomic_to_gene(g, gene_id))
    return out


class RecordMaker:
    """SNV / INDEL records in gene coordinates, both strands."""
    def __init__(self, anno, genome):
        self.anno = anno
        self.genome = genome
        self._coords = {}
        self._gene_seq = {}

    def coords(self, tx_id):
        if tx_id not in self._coords:
            self._coords[tx_id] = _tx_gene_coords(self.anno, tx_id)
        return self._coords[tx_id]

    def gene_seq(self, gene_id):
        if gene_id not in self._gene_seq:
            gm = self.anno.genes[gene_id]
            self._gene_seq[gene_id] = str(gm.get_gene_sequence(self.genome[gm.chrom]).seq)
        return self._gene_seq[gene_id]

    def small(self, rng, tx_id, tx_pos=None, kind=None):
        tx_model = self.anno.transcripts[tx_id]
        gene_id = tx_model.transcript.gene_id
        gm = self.anno.genes[gene_id]
        coords = self.coords(tx_id)
        gseq = self.gene_seq(gene_id)
        kind = kind or rng.choice(['SNV', 'SNV', 'SNV', 'INS', 'DEL'])
        for _ in range(50):
            i = tx_pos if tx_pos is not None else rng.randrange(1, len(coords) - 1)
            i = max(1, min(len(coords) - 2, i))
            g = coords[i]
            if kind == 'SNV':
                ref = gseq[g]
                alt = rng.choice([c for c in DNA if c != ref])
                start, end, typ = g, g + 1, 'SNV'
            elif kind == 'INS':
                ref = gseq[g]
                alt = ref + ''.join(rng.choice(DNA) for _ in range(rng.randint(1, 4)))
                start, end, typ = g, g + 1, 'INDEL'
            else:
                k = rng.randint(2, 5)
                if i + k - 1 >= len(coords) or coords[i + k - 1] != g + k - 1:
                    tx_pos = None
                    continue
                ref = gseq[g:g + k]
                alt = ref[0]
                start, end, typ = g, g + k, 'INDEL'
            break
        else:
            raise ValueError('could not place record')
        var_id = f"{gene_id}-{start}-{ref}-{alt}"
        gs = self.anno.coordinate_gene_to_genomic(start, gene_id)
        attrs = {'TRANSCRIPT_ID': tx_id, 'GENOMIC_POSITION': f"{gm.chrom}-{gs}:{gs + 1}",
                 'GENE_SYMBOL': gm.gene_name}
        from moPepGen.SeqFeature import FeatureLocation
        return seqvar.VariantRecord(
            location=FeatureLocation(start=start, end=end, seqname=gene_id),
            ref=ref, alt=alt, _type=typ, _id=var_id, attrs=attrs)

    def intronic_snv(self, rng, tx_id):
        tx_model = self.anno.transcripts[tx_id]
        gene_id = tx_model.transcript.gene_id
        gm = self.anno.genes[gene_id]
        coords = set(self.coords(tx_id))
        gseq = self.gene_seq(gene_id)
        lo, hi = min(coords), max(coords)
        cand = [g for g in range(lo + 1, hi) if g not in coords and g - 1 not in coords
                and g + 1 not in coords]
        if not cand:
            raise ValueError('no intron')
        g = rng.choice(cand)
        ref = gseq[g]
        alt = rng.choice([c for c in DNA if c != ref])
        from moPepGen.SeqFeature import FeatureLocation
        gs = self.anno.coordinate_gene_to_genomic(g, gene_id)
        attrs = {'TRANSCRIPT_ID': tx_id, 'GENOMIC_POSITION': f"{gm.chrom}-{gs}:{gs + 1}",
                 'GENE_SYMBOL': gm.gene_name}
        return seqvar.VariantRecord(
            location=FeatureLocation(start=g, end=g + 1, seqname=gene_id),
            ref=ref, alt=alt, _type='SNV', _id=f"{gene_id}-{g}-{ref}-{alt}", attrs=attrs)


def gen_records(rng, anno, genome, n_records, mix=None, cluster=False, intronic_only_txs=0):
    """Returns (var_lines, circ_lines, stats).  Lines are GVF record lines (no header)."""
    mix = mix or {'small': 0.62, 'fusion': 0.1, 'circ': 0.12, 'altsplice': 0.16}
    kinds, weights = zip(*sorted(mix.items()))
    maker = RecordMaker(anno, genome)
    txs = list(anno.transcripts.keys())
    rng.shuffle(txs)
    n_active = max(1, int(len(txs) * rng.uniform(0.6, 1.0)))
    intronic_txs = txs[n_active:n_active + intronic_only_txs] if intronic_only_txs else []
    active = txs[:n_active]
    var, cir = {}, {}
    stats = {'gen_fail': 0}
    for _ in range(n_records):
        tx = rng.choice(active)
        k = rng.choices(kinds, weights)[0]
        try:
            if k == 'small':
                r = maker.small(rng, tx)
            elif k == 'fusion':
                with global_random(rng):
                    r = fake.fake_fusion(anno, genome, tx)
            elif k == 'circ':
                with global_random(rng):
                    r = fake.fake_circ_rna_model(anno, tx, 0.2)
            else:
                with global_random(rng):
                    r = fake.fake_rmats_record(anno, genome, tx)
        except Exception:  # pylint: disable=broad-except
            stats['gen_fail'] += 1
            continue
        (cir if isinstance(r, circ.CircRNAModel) else var)[(tx, r.id)] = r
        if k == 'fusion' and rng.random() < 0.35:
            # a second fusion from the SAME donor breakpoint to another accepter (what a fusion caller reports for
            # one breakpoint joined to two partner transcripts)
            try:
                with global_random(rng):
                    r2 = fake.fake_fusion(anno, genome, tx)
                if r2.attrs['ACCEPTER_TRANSCRIPT_ID'] != r.attrs['ACCEPTER_TRANSCRIPT_ID'] or \
                        r2.attrs['ACCEPTER_POSITION'] != r.attrs['ACCEPTER_POSITION']:
                    r2.location = r.location
                    r2.ref = r.ref
                    r2.attrs['GENOMIC_POSITION'] = r.attrs['GENOMIC_POSITION']
                    r2.id = (f"FUSION-{tx}:{int(r.location.start)}-{r2.attrs['ACCEPTER_TRANSCRIPT_ID']}:"
                             f"{r2.attrs['ACCEPTER_POSITION']}")
                    var[(tx, r2.id)] = r2
                    stats['sibling_fusions'] = stats.get('sibling_fusions', 0) + 1
            except Exception:  # pylint: disable=broad-except
                stats['gen_fail'] += 1
    if cluster:
        coding = [t for t in active if anno.transcripts[t].is_protein_coding] or active
        tx = rng.choice(coding)
        tm = anno.transcripts[tx]
        n_tx = len(maker.coords(tx))
        try:
            if tm.is_protein_coding:
                tx_seq = tm.get_transcript_sequence(genome[tm.transcript.chrom])
                lo, hi = tx_seq.orf.start + 6, max(tx_seq.orf.start + 30, tx_seq.orf.end - 20)
            else:
                lo, hi = 5, n_tx - 20
            centre = rng.randrange(lo, max(lo + 1, hi))
            for _ in range(rng.randint(5, 9)):
                try:
                    r = maker.small(rng, tx, tx_pos=centre + rng.randint(0, 12),
                                    kind=rng.choice(['SNV', 'SNV', 'SNV', 'INS', 'DEL']))
                    var[(tx, r.id)] = r
                except Exception:  # pylint: disable=broad-except
                    stats['gen_fail'] += 1
        except Exception:  # pylint: disable=broad-except
            stats['gen_fail'] += 1
    # two SNVs on adjacent bases inside a circRNA / upstream of a fusion breakpoint: candidates for merging into an
    # MNV (--max-adjacent-as-mnv), which those graphs do on the variant list as it comes
    for (tx, _rid), r in list(cir.items()) + [(k, v) for k, v in var.items() if v.type == 'Fusion']:
        if rng.random() >= 0.5:
            continue
        try:
            coords = maker.coords(tx)
            if isinstance(r, circ.CircRNAModel):
                frag = rng.choice(r.fragments)
                lo, hi = int(frag.location.start), int(frag.location.end)
            else:
                lo, hi = min(coords), int(r.location.start)
            cand = [i for i in range(1, len(coords) - 2)
                    if lo <= coords[i] < hi - 1 and coords[i + 1] == coords[i] + 1]
            if not cand:
                continue
            i = rng.choice(cand)
            for j in (i, i + 1):
                v = maker.small(rng, tx, tx_pos=j, kind='SNV')
                var[(tx, v.id)] = v
            stats['adjacent_snv_pairs'] = stats.get('adjacent_snv_pairs', 0) + 1
        except Exception:  # pylint: disable=broad-except
            stats['gen_fail'] += 1
    for tx in intronic_txs:
        try:
            r = maker.intronic_snv(rng, tx)
            var[(tx, r.id)] = r
        except Exception:  # pylint: disable=broad-except
            stats['gen_fail'] += 1
    var_lines = [r.to_string() for r in var.values()]
    circ_lines = [r.to_string() for r in cir.values()]
    stats['n_var'] = len(var_lines)
    stats['n_circ'] = len(circ_lines)
    stats['intronic_only_txs'] = len(intronic_txs)
    return var_lines, circ_lines, stats


# ---------------------------------------------------------------------------------------------
# GVF text
# ---------------------------------------------------------------------------------------------

def line_tx_id(line):
    for f in line.rstrip('\n').split('\t')[7].split(';'):
        if f.startswith('TRANSCRIPT_ID='):
            return f.split('=', 1)[1]
    raise ValueError('no TRANSCRIPT_ID')


def line_type(line):
    alt = line.split('\t')[4]
    return {'<FUSION>': 'Fusion', '<DEL>': 'Deletion', '<INS>': 'Insertion',
            '<SUB>': 'Substitution'}.get(alt, 'SNV')


def gvf_header(is_circ, types=(), source=None, genome_fasta=None):
    """Header lines of a GVF file, independent of process-global state (S10)."""
    md = GVFMetadata(
        parser='parseCIRCexplorer' if is_circ else 'parseVEP',
        source=source or ('circRNA' if is_circ else 'gSNP'), chrom='Gene ID',
        genome_fasta=genome_fasta,
        info=copy.deepcopy(GVF_METADATA_INFO['Base']))
    if is_circ:
        md.add_info('circRNA')
    for t in sorted(set(types)):
        md.add_info(t)
    return md.to_strings() + ['#' + '\t'.join(GVF_HEADER)]


def gvf_text(lines, is_circ, source=None, genome_fasta=None):
    types = [] if is_circ else [line_type(l) for l in lines]
    return '\n'.join(gvf_header(is_circ, types, source, genome_fasta) + list(lines)) + '\n'
