"""Engine index-store (C12): histories of generateIndex / updateIndex / load / version skew on one index
directory.  Every operation is a fresh invocation of the real CLI entry function with a new Namespace; only
the directory survives between operations (process-boundary semantics).  Dictionary model:
canon(params) -> pool computed on the fly from the raw reference files.
"""
import argparse
import contextlib
import io
import json
import os
import shutil
import sys
from pathlib import Path

from sim import boot, rng as R, workload, cvcase, driver, hyprun

boot.boot()

# pylint: disable=wrong-import-position
from hypothesis import settings, seed as hseed, strategies as st, Verbosity, HealthCheck
from hypothesis.stateful import RuleBasedStateMachine, rule, initialize, run_state_machine_as_test, precondition
import moPepGen.cli.generate_index  # noqa
import moPepGen.cli.update_index  # noqa
import moPepGen.cli.common  # noqa
from moPepGen import params, gtf, aa, dna, err
from sim.engines.gtf_store import digest_tx, digest_gene

gi = sys.modules['moPepGen.cli.generate_index']
ui = sys.modules['moPepGen.cli.update_index']
common_mod = sys.modules['moPepGen.cli.common']
import moPepGen.index  # noqa
idx_mod = sys.modules['moPepGen.index']

PROPERTY = 'C12'
ENGINE = 'index-store'
BUDGET_S = {'quick': 100, 'thorough': 1200}
CASE_TIMEOUT_S = 900
STUBS = []
PROBES = ['gen_on_existing_rejected', 'gen_force', 'gen_force_other_reference', 'upd_new', 'upd_existing_rejected',
          'upd_force_existing', 'upd_force_new', 'load_unregistered_rejected', 'skew_rejected', 'graph_params_alias',
          'auto_exception_alias', 'symlink', 'natural_failure', 'three_or_more_pools', 'invalid_protein_as_noncoding',
          'skew_rejected_plain_load', 'gen_force_on_old_layout', 'proteome_with_x_or_stop',
          'explicit_reference_source', 'load_after_failed_invocation', 'load_after_failed_invocation_succeeded', 'crash', 'crash:before-open',
          'crash:opened', 'crash:written', 'crash:written:torn', 'crash:before-remove', 'crash:before-copy',
          'crash:copied']
RULE = ('case = two generated references R_A/R_B; history = Hypothesis rule sequence (<=12 operations) over '
        'gen(R,P,force,symlink,flag) / upd(P,force) / load(P) / load_plain (parser path) / skew(field incl. pre-1.3.0 metadata layout) / unskew with P from an alphabet of 9 '
        'cleavage-parameter sets (two pairs alias each other: graph parameters only, and exception auto vs '
        'explicit); after every operation all registered pools and all reference data are reloaded and compared '
        'with the model.  distinct = distinct (model state, operation, outcome class) transitions')
ASSUMPTIONS = [
    'expected pool = common.load_references on the pristine raw files with the same arguments (on-the-fly path)',
    'crash atomicity of the directory is not demanded: after an invocation that failed half-way only one thing is '
    'checked until a later generateIndex --force succeeds -- a load that succeeds must return a pool and a genome of '
    'one and the same reference',
    'every generateIndex works on its own copy of the reference files (create_gtf_copy can write through an '
    'annotation.gtf symlink into the source GTF)',
]

PARAMS = {
    'P1': dict(rule='trypsin', exception=None, miscleavage=2, min_mw=500., min_length=7, max_length=25),
    'P2': dict(rule='trypsin', exception=None, miscleavage=1, min_mw=500., min_length=7, max_length=25),
    'P3': dict(rule='lysc', exception=None, miscleavage=2, min_mw=500., min_length=7, max_length=25),
    'P4': dict(rule='trypsin', exception=None, miscleavage=2, min_mw=500., min_length=6, max_length=25),
    'P5': dict(rule='trypsin', exception=None, miscleavage=2, min_mw=500., min_length=7, max_length=25,
               graph=dict(max_variants_per_node=9, additional_variants_per_misc=1, min_nodes_to_collapse=20,
                          naa_to_collapse=4)),
    'P6': dict(rule='trypsin', exception='auto', miscleavage=2, min_mw=500., min_length=7, max_length=25),
    'P7': dict(rule='trypsin', exception='trypsin_exception', miscleavage=2, min_mw=500., min_length=7,
               max_length=25),
    'P8': dict(rule='lysn', exception=None, miscleavage=0, min_mw=700., min_length=7, max_length=25),
    'P9': dict(rule='trypsin', exception=None, miscleavage=2, min_mw=500., min_length=7, max_length=30),
}
PNAMES = sorted(PARAMS)


def canon(pname):
    """Documented identity of a parameter set: enzyme, resolved exception, miscleavage, mass and lengths."""
    p = PARAMS[pname]
    exc = p['exception']
    if exc == 'auto':
        exc = 'trypsin_exception' if p['rule'] == 'trypsin' else None
    return (p['rule'], exc, int(p['miscleavage']), float(p['min_mw']), int(p['min_length']), int(p['max_length']))


def cleavage_params(pname):
    p = PARAMS[pname]
    return params.CleavageParams(enzyme=p['rule'], exception=p['exception'], miscleavage=int(p['miscleavage']),
                                 min_mw=float(p['min_mw']), min_length=p['min_length'], max_length=p['max_length'],
                                 **p.get('graph', {}))


class Crash(BaseException):
    """Simulated kill -9 of the invoked command (not an Exception: no product handler may swallow it)."""


class _TornHandle:
    """Write handle of the index module: the bytes reach the real file; at close the crash plan may cut the file."""
    def __init__(self, plan, fh, path):
        self._plan, self._fh, self._path = plan, fh, path

    def write(self, data):
        return self._fh.write(data)

    def __getattr__(self, name):
        return getattr(self._fh, name)

    def __enter__(self):
        return self

    def __exit__(self, *exc):
        self._fh.close()
        if exc[0] is None:
            self._plan.event('written', self._path)
        return False


class CrashPlan:
    """Crash at the k-th durable-state event of one invocation (events: before a write-open, after it (file empty),
    after the write (file complete or cut at `torn`), before os.remove / os.symlink, before and after the GTF copy).
    At the crash instant the directory is copied: that copy is what survives the kill; whatever the interpreter
    does while the exception unwinds (closing handles, finally blocks) is discarded with the restore."""
    def __init__(self, k, torn, index_dir, snap_dir):
        self.k, self.torn, self.index, self.snap = k, torn, Path(index_dir), Path(snap_dir)
        self.n = 0
        self.fired = None

    def event(self, kind, path=None):
        i = self.n
        self.n += 1
        if self.fired is not None or i != self.k:
            return
        if kind in ('written', 'copied') and path is not None and self.torn is not None and os.path.isfile(path) \
                and not os.path.islink(path):
            size = os.path.getsize(path)
            with open(path, 'r+b') as fh:
                fh.truncate(int(size * self.torn))
            kind = kind + ':torn'
        self.fired = kind + ':' + (os.path.basename(str(path)) if path is not None else '')
        if self.snap.exists():
            shutil.rmtree(self.snap)
        if self.index.exists():
            shutil.copytree(self.index, self.snap, symlinks=True)
        raise Crash(self.fired)

    # ---- seams of moPepGen.index -------------------------------------------------------------
    def open(self, file, mode='r', *a, **k):
        if 'w' not in mode and 'a' not in mode and '+' not in mode:
            return open(file, mode, *a, **k)
        self.event('before-open', file)
        fh = open(file, mode, *a, **k)
        fh.flush()
        try:
            self.event('opened', file)
        except Crash:
            fh.close()
            raise
        return _TornHandle(self, fh, file)

    def restore(self):
        if self.index.exists():
            shutil.rmtree(self.index)
        if self.snap.exists():
            shutil.move(str(self.snap), str(self.index))


class _OsProxy:
    def __init__(self, plan):
        self._plan = plan

    def remove(self, path, *a, **k):
        self._plan.event('before-remove', path)
        return os.remove(path, *a, **k)

    def symlink(self, src, dst, *a, **k):
        self._plan.event('before-symlink', dst)
        return os.symlink(src, dst, *a, **k)

    def __getattr__(self, name):
        return getattr(os, name)


class _ShutilProxy:
    def __init__(self, plan):
        self._plan = plan

    def copy2(self, src, dst, *a, **k):
        self._plan.event('before-copy', dst)
        r = shutil.copy2(src, dst, *a, **k)
        self._plan.event('copied', dst)
        return r

    def __getattr__(self, name):
        return getattr(shutil, name)


@contextlib.contextmanager
def crash_seams(plan):
    """Attach the plan to the I/O names of moPepGen.index (module attributes; restored afterwards)."""
    if plan is None:
        yield
        return
    saved = {k: idx_mod.__dict__.get(k, None) for k in ('open', 'os', 'shutil')}
    idx_mod.open, idx_mod.os, idx_mod.shutil = plan.open, _OsProxy(plan), _ShutilProxy(plan)
    try:
        yield
    finally:
        for k, v in saved.items():
            if v is None:
                idx_mod.__dict__.pop(k, None)
            else:
                idx_mod.__dict__[k] = v


class Violation(Exception):
    def __init__(self, clause, signature, detail):
        super().__init__(f'{clause}: {signature}')
        self.clause, self.signature, self.detail = clause, signature, detail


def n_cases(tier):
    return 64 if tier == 'quick' else 4000


def quiet_call(f, *a, **k):
    try:
        with contextlib.redirect_stdout(io.StringIO()), contextlib.redirect_stderr(io.StringIO()):
            return ('ok', f(*a, **k))
    except SystemExit as e:
        return ('exit', e.code)
    except Exception as e:  # pylint: disable=broad-except
        return ('exc', type(e).__name__, str(e)[:160])


class Ctx:
    """Pristine references + memoised expected data."""
    def __init__(self, refs, workdir):
        self.dir = Path(workdir)
        self.refs = refs
        self.pristine = {}
        for name, texts in refs.items():
            d = self.dir / f'pristine_{name}'
            d.mkdir(parents=True)
            (d / 'genome.fasta').write_text(texts['genome_fa'])
            (d / 'annotation.gtf').write_text(texts['gtf'])
            (d / 'proteome.fasta').write_text(texts['proteome_fa'])
            self.pristine[name] = d
        self._pool = {}
        self._refdata = {}
        self.n_copy = 0
        self.index = self.dir / 'index'

    def fresh_copy(self, name):
        d = self.dir / f'copy{self.n_copy}_{name}'
        self.n_copy += 1
        shutil.copytree(self.pristine[name], d)
        return d

    def raw_args(self, refdir, pname, flag):
        p = PARAMS[pname]
        return argparse.Namespace(
            index_dir=None, genome_fasta=refdir / 'genome.fasta', annotation_gtf=refdir / 'annotation.gtf',
            proteome_fasta=refdir / 'proteome.fasta', reference_source=None, cleavage_rule=p['rule'],
            cleavage_exception=p['exception'], miscleavage=str(p['miscleavage']), min_mw=str(p['min_mw']),
            min_length=p['min_length'], max_length=p['max_length'], invalid_protein_as_noncoding=flag,
            quiet=True, debug_level=1)

    def pool_fly(self, ref, pname, flag):
        key = (ref, pname, flag)
        if key not in self._pool:
            args = self.raw_args(self.pristine[ref], pname, flag)
            r = quiet_call(common_mod.load_references, args, load_genome=False,
                           invalid_protein_as_noncoding=flag, cleavage_params=cleavage_params(pname))
            if r[0] != 'ok':
                raise RuntimeError(f'model pool failed: {r}')
            self._pool[key] = frozenset(r[1][3])
        return self._pool[key]

    def refdata(self, ref, flag):
        key = (ref, flag)
        if key not in self._refdata:
            d = self.pristine[ref]
            genome = dna.DNASeqDict()
            genome.dump_fasta(d / 'genome.fasta')
            prot = aa.AminoAcidSeqDict()
            prot.dump_fasta(d / 'proteome.fasta')
            mem = gtf.GenomicAnnotation()
            mem.dump_gtf(d / 'annotation.gtf')
            prot2 = aa.AminoAcidSeqDict()
            prot2.dump_fasta(d / 'proteome.fasta')
            mem.check_protein_coding(prot2, flag)
            self._refdata[key] = {
                'genome': {k: str(v.seq) for k, v in genome.items()},
                'proteome': {k: str(v.seq) for k, v in prot.items()},
                'tx': {t: digest_tx(m) for t, m in mem.transcripts.items()},
                'genes': {g: digest_gene(m) for g, m in mem.genes.items()},
                'coding': {t for t, m in mem.transcripts.items() if m.is_protein_coding},
            }
        return self._refdata[key]


class Sim:
    def __init__(self, ctx):
        self.ctx = ctx
        # model
        self.exists = False
        self.cur_ref = None
        self.flag = False
        self.pools = {}           # canon -> pname as registered
        self.skewed = None
        self.clean = True
        self.saved_meta = None
        self.trans = []
        self.stats = {'kinds': {}, 'probes': {}}
        self.plan = None          # CrashPlan of the invocation in flight
        self.had_crash = False

    def probe(self, name):
        self.stats['probes'][name] = self.stats['probes'].get(name, 0) + 1

    def state_sig(self):
        return (tuple(sorted(self.pools.values())), self.cur_ref, self.skewed, self.clean, self.exists)

    # ---- real invocations -------------------------------------------------------------------
    def inv_generate(self, refdir, pname, force, symlink, flag, source=None):
        p = PARAMS[pname]
        args = argparse.Namespace(
            command='generateIndex', genome_fasta=refdir / 'genome.fasta',
            annotation_gtf=refdir / 'annotation.gtf', proteome_fasta=refdir / 'proteome.fasta',
            reference_source=source, invalid_protein_as_noncoding=flag, output_dir=self.ctx.index,
            gtf_symlink=symlink, force=force, cleavage_rule=p['rule'], cleavage_exception=p['exception'],
            miscleavage=str(p['miscleavage']), min_mw=str(p['min_mw']), min_length=p['min_length'],
            max_length=p['max_length'], quiet=True, debug_level=1)
        return self.invoke(gi.generate_index, args)

    def invoke(self, func, args):
        """One invocation of a writing command, under the crash plan if one is armed."""
        plan, self.plan = self.plan, None
        try:
            with crash_seams(plan):
                return quiet_call(func, args)
        except Crash as c:
            plan.restore()
            return ('crash', str(c))

    def inv_update(self, pname, force):
        p = PARAMS[pname]
        args = argparse.Namespace(
            command='updateIndex', index_dir=self.ctx.index, force=force, cleavage_rule=p['rule'],
            cleavage_exception=p['exception'], miscleavage=str(p['miscleavage']), min_mw=str(p['min_mw']),
            min_length=p['min_length'], max_length=p['max_length'], quiet=True, debug_level=1)
        return self.invoke(ui.update_index, args)

    def inv_load(self, pname, everything=False):
        p = PARAMS[pname]
        args = argparse.Namespace(index_dir=self.ctx.index, cleavage_rule=p['rule'],
                                  cleavage_exception=p['exception'], miscleavage=str(p['miscleavage']),
                                  min_mw=str(p['min_mw']), min_length=p['min_length'], max_length=p['max_length'],
                                  reference_source=None, genome_fasta=None, annotation_gtf=None,
                                  proteome_fasta=None)
        return quiet_call(common_mod.load_references, args, load_genome=everything, load_proteome=everything,
                          cleavage_params=cleavage_params(pname))

    # ---- checks -----------------------------------------------------------------------------
    def check_all(self, after):
        """Step invariant: every registered pool and all reference data equal the model."""
        if not (self.exists and self.clean) or self.skewed:
            return
        ctx = self.ctx
        for c, pname in sorted(self.pools.items(), key=lambda x: str(x)):
            r = self.inv_load(pname)
            if r[0] != 'ok':
                raise Violation('pool-load', f'pool-load:raised:{r[1]}',
                                {'after': after, 'params': pname, 'result': r, 'registered': sorted(self.pools.values())})
            got = frozenset(r[1][3])
            exp = ctx.pool_fly(self.cur_ref, pname, self.flag)
            if got != exp:
                other = [q for q in PNAMES if ctx.pool_fly(self.cur_ref, q, self.flag) == got]
                other_ref = [rr for rr in ctx.refs if ctx.pool_fly(rr, pname, self.flag) == got]
                raise Violation('pool-faithful', f'pool-faithful:{pname}',
                                {'after': after, 'params': pname, 'n_got': len(got), 'n_expected': len(exp),
                                 'only_got': sorted(got - exp)[:4], 'only_expected': sorted(exp - got)[:4],
                                 'equals_pool_of_params': other, 'equals_pool_of_reference': other_ref})
        # file-level: exactly one pool file per registered parameter set
        meta = json.loads((ctx.index / 'metadata.json').read_text())
        files = [p['filename'] for p in meta['canonical_pools']]
        on_disk = sorted(f.name for f in ctx.index.glob('canonical_peptides_*.pkl'))
        # (a killed invocation may leave a pool file that was never registered: an orphan is not a pool of the index)
        disk_ok = set(files) <= set(on_disk) if self.had_crash else sorted(files) == on_disk
        if len(files) != len(set(files)) or not disk_ok or len(files) != len(self.pools):
            raise Violation('pool-registry', 'pool-registry',
                            {'after': after, 'metadata_files': files, 'on_disk': on_disk,
                             'model_pools': sorted(self.pools.values())})
        any_p = sorted(self.pools.values())[0]
        r = self.inv_load(any_p, everything=True)
        if r[0] != 'ok':
            raise Violation('refdata-load', f'refdata-load:raised:{r[1]}', {'after': after, 'result': r})
        genome, anno, proteome, _ = r[1]
        exp = ctx.refdata(self.cur_ref, self.flag)
        if {k: str(v.seq) for k, v in genome.items()} != exp['genome']:
            raise Violation('refdata', 'refdata:genome', {'after': after})
        if {k: str(v.seq) for k, v in proteome.items()} != exp['proteome']:
            raise Violation('refdata', 'refdata:proteome', {'after': after})
        if list(anno.transcripts.keys()) != list(exp['tx'].keys()) or list(anno.genes.keys()) != list(exp['genes'].keys()):
            raise Violation('refdata', 'refdata:annotation-keys', {'after': after})
        for t in exp['tx']:
            if digest_tx(anno.transcripts[t]) != exp['tx'][t]:
                raise Violation('refdata', 'refdata:transcript', {'after': after, 'tx': t})
        for g in exp['genes']:
            if digest_gene(anno.genes[g]) != exp['genes'][g]:
                raise Violation('refdata', 'refdata:gene', {'after': after, 'gene': g})
        from moPepGen.index import IndexDir
        coding = IndexDir(ctx.index).load_coding_tx()
        if set(coding) != exp['coding']:
            raise Violation('refdata', 'refdata:coding-transcripts',
                            {'after': after, 'got': sorted(coding)[:5], 'expected': sorted(exp['coding'])[:5]})

    # ---- operations --------------------------------------------------------------------------
    def arm(self, k, torn):
        self.plan = CrashPlan(k, torn, self.ctx.index, self.ctx.dir / 'crash_snapshot')

    def crashed(self, before, what, r):
        """The invocation was killed at r[1]; the directory is the copy taken at that instant.  From here on nothing is
        demanded of the directory except that a load which succeeds is faithful (unclean_load), until a later
        generateIndex --force succeeds."""
        self.probe('crash')
        self.had_crash = True
        self.probe('crash:' + r[1].split(':')[0] + (':torn' if ':torn' in r[1] else ''))
        self.exists = self.ctx.index.exists() and any(self.ctx.index.iterdir())
        self.clean = False
        self.skewed = None
        self.trans.append((before, what, 'crash:' + r[1]))
        if self.exists:
            for pname in PNAMES:
                self.unclean_load(pname)

    def op_crash_gen(self, ref, pname, symlink, flag, k, torn):
        if self.skewed:
            return
        self.arm(k, torn)
        self.op_gen(ref, pname, True, symlink, flag)

    def op_crash_upd(self, pname, force, k, torn):
        if not (self.exists and self.clean) or self.skewed:
            return
        self.arm(k, torn)
        self.op_upd(pname, force)

    def op_gen(self, ref, pname, force, symlink, flag, source=None):
        ctx = self.ctx
        if source:
            self.probe('explicit_reference_source')
        refdir = ctx.fresh_copy(ref)
        has_gtf = (ctx.index / 'annotation.gtf').exists() or (ctx.index / 'annotation.gtf').is_symlink()
        nonempty = ctx.index.exists() and any(ctx.index.iterdir())
        before = self.state_sig()
        r = self.inv_generate(refdir, pname, force, symlink, flag, source)
        if r[0] == 'crash':
            self.crashed(before, 'gen', r)
            return
        if nonempty and not force:
            self.probe('gen_on_existing_rejected')
            if r != ('exit', 1) and not (self.skewed == 'old_layout' and r[0] != 'ok') \
                    and not (not self.clean and r[0] != 'ok'):
                # (directory left by a killed/failed invocation, e.g. a cut metadata.json: any refusal will do)
                # (pre-1.3.0 metadata: the pinned tree refuses with KeyError from IndexDir() -- still a refusal)
                self.clean = False
                raise Violation('gen-reject', f'gen-reject:{r[0]}', {'result': r})
            outcome = 'rejected'
        elif not self.clean:
            # directory left by a half-failed invocation: only a success restores checking
            if r[0] == 'ok':
                self._gen_ok(ref, pname, flag)
            outcome = 'unclean:' + r[0]
        elif nonempty and force and self.skewed == 'old_layout':
            # a directory whose metadata.json has the pre-1.3.0 layout: C12 only demands that it is never *used*;
            # whether --force can rebuild it is not stated (on the pinned tree IndexDir() raises KeyError)
            self.probe('gen_force_on_old_layout')
            if r[0] == 'ok':
                self._gen_ok(ref, pname, flag)
                outcome = 'ok'
            else:
                self.clean = False
                outcome = 'old-layout-not-rebuildable'
        elif nonempty and force and symlink and has_gtf:
            self.probe('natural_failure')
            if r[0] == 'ok':
                self._gen_ok(ref, pname, flag)
                outcome = 'ok'
            else:
                self.clean = False
                outcome = 'natural-failure'
        else:
            if r[0] != 'ok':
                self.clean = False
                raise Violation('gen-fails', f'gen-fails:{r[1]}', {'result': r, 'force': force, 'symlink': symlink})
            if nonempty:
                self.probe('gen_force')
                if self.cur_ref != ref:
                    self.probe('gen_force_other_reference')
            if symlink:
                self.probe('symlink')
            if flag:
                self.probe('invalid_protein_as_noncoding')
            self._gen_ok(ref, pname, flag)
            outcome = 'ok'
        self.trans.append((before, 'gen', outcome))
        self.check_all(f'gen({ref},{pname},force={force},symlink={symlink},flag={flag})')

    def _gen_ok(self, ref, pname, flag):
        self.exists, self.cur_ref, self.flag = True, ref, flag
        self.pools = {canon(pname): pname}
        self.skewed = None
        self.clean = True
        self.saved_meta = None

    def op_upd(self, pname, force):
        if not (self.exists and self.clean):
            return
        before = self.state_sig()
        meta_before = (self.ctx.index / 'metadata.json').read_text()
        r = self.inv_update(pname, force)
        c = canon(pname)
        if r[0] == 'crash':
            self.crashed(before, 'upd', r)
            return
        if self.skewed:
            self.probe('skew_rejected')
            if r[0] == 'ok' or (self.skewed != 'old_layout' and r[:2] != ('exc', 'InvalidIndexError')):
                raise Violation('skew-accepted', f'skew-accepted:upd:{self.skewed}', {'result': r})
            if (self.ctx.index / 'metadata.json').read_text() != meta_before:
                raise Violation('skew-accepted', f'skew-modified:upd:{self.skewed}', {})
            outcome = 'skew-rejected'
        elif c in self.pools and not force:
            self.probe('upd_existing_rejected')
            if PARAMS[pname].get('graph'):
                self.probe('graph_params_alias')
            if self.pools[c] != pname and 'auto' in (PARAMS[pname]['exception'], PARAMS[self.pools[c]]['exception']):
                self.probe('auto_exception_alias')
            if r != ('exit', 1):
                raise Violation('upd-reject', f'upd-reject:{r[0]}', {'result': r, 'params': pname})
            outcome = 'rejected'
        else:
            if r[0] != 'ok':
                self.clean = False
                raise Violation('upd-fails', f'upd-fails:{r[1]}', {'result': r, 'params': pname, 'force': force})
            self.probe('upd_force_existing' if c in self.pools else ('upd_force_new' if force else 'upd_new'))
            self.pools[c] = pname
            if len(self.pools) >= 3:
                self.probe('three_or_more_pools')
            outcome = 'ok'
        self.trans.append((before, 'upd', outcome))
        self.check_all(f'upd({pname},force={force})')

    def unclean_load(self, pname):
        """After an invocation that failed half-way nothing is demanded of the directory -- except that a load which
        SUCCEEDS is faithful: the pool it returns is the pool of the very reference whose genome it returns."""
        ctx = self.ctx
        r = self.inv_load(pname, everything=True)
        self.probe('load_after_failed_invocation')
        if r[0] != 'ok':
            return
        genome, _, _, pool = r[1]
        got = frozenset(pool or [])
        g = {k: str(v.seq) for k, v in genome.items()}
        owners = [ref for ref in ctx.refs if ctx.refdata(ref, False)['genome'] == g]
        if not any(got == ctx.pool_fly(ref, pname, flag) for ref in owners for flag in (False, True)):
            raise Violation('unclean-load', f'unclean-load:{pname}',
                            {'params': pname, 'genome_of_reference': owners, 'n_pool': len(got),
                             'pool_equals_reference': [ref for ref in ctx.refs for flag in (False, True)
                                                       if got == ctx.pool_fly(ref, pname, flag)]})
        self.probe('load_after_failed_invocation_succeeded')

    def op_load(self, pname):
        if self.exists and not self.clean and not self.skewed:
            self.unclean_load(pname)
            return
        if not (self.exists and self.clean):
            return
        before = self.state_sig()
        r = self.inv_load(pname)
        c = canon(pname)
        if self.skewed:
            self.probe('skew_rejected')
            if r[0] == 'ok' or (self.skewed != 'old_layout' and r[:2] != ('exc', 'InvalidIndexError')):
                raise Violation('skew-accepted', f'skew-accepted:load:{self.skewed}', {'result': str(r)[:200]})
            outcome = 'skew-rejected'
        elif c not in self.pools:
            self.probe('load_unregistered_rejected')
            if r[0] == 'ok':
                raise Violation('load-unregistered', f'load-unregistered:{pname}',
                                {'params': pname, 'registered': sorted(self.pools.values()),
                                 'n_returned': len(r[1][3] or [])})
            outcome = 'unregistered-rejected'
        else:
            if r[0] != 'ok':
                raise Violation('pool-load', f'pool-load:raised:{r[1]}', {'params': pname, 'result': r})
            got = frozenset(r[1][3])
            exp = self.ctx.pool_fly(self.cur_ref, pname, self.flag)
            if PARAMS[pname].get('graph'):
                self.probe('graph_params_alias')
            if self.pools[c] != pname and 'auto' in (PARAMS[pname]['exception'], PARAMS[self.pools[c]]['exception']):
                self.probe('auto_exception_alias')
            if got != exp:
                raise Violation('pool-faithful', f'pool-faithful:load:{pname}:registered-as:{self.pools[c]}',
                                {'params': pname, 'registered_as': self.pools[c], 'n_got': len(got),
                                 'n_expected': len(exp), 'only_got': sorted(got - exp)[:4],
                                 'only_expected': sorted(exp - got)[:4]})
            outcome = 'ok'
        self.trans.append((before, 'load', outcome))

    def op_load_plain(self):
        """What the parsers do: load_references(load_canonical_peptides=False) on the index directory."""
        if not (self.exists and self.clean):
            return
        before = self.state_sig()
        args = argparse.Namespace(index_dir=self.ctx.index, reference_source=None, genome_fasta=None,
                                  annotation_gtf=None, proteome_fasta=None)
        r = quiet_call(common_mod.load_references, args, load_genome=True, load_canonical_peptides=False)
        if self.skewed:
            self.probe('skew_rejected')
            self.probe('skew_rejected_plain_load')
            if r[0] == 'ok' or (self.skewed != 'old_layout' and r[:2] != ('exc', 'InvalidIndexError')):
                raise Violation('skew-accepted', f'skew-accepted:load-plain:{self.skewed}', {'result': str(r)[:200]})
            outcome = 'skew-rejected'
        else:
            if r[0] != 'ok':
                raise Violation('refdata-load', f'refdata-load:plain:raised:{r[1]}', {'result': r})
            genome, anno, _, pool = r[1]
            exp = self.ctx.refdata(self.cur_ref, False)
            if pool is not None or {k: str(v.seq) for k, v in genome.items()} != exp['genome'] \
                    or list(anno.transcripts.keys()) != list(exp['tx'].keys()):
                raise Violation('refdata', 'refdata:plain-load', {})
            outcome = 'ok'
        self.trans.append((before, 'load_plain', outcome))

    def op_skew(self, field):
        if not (self.exists and self.clean) or self.skewed:
            return
        f = self.ctx.index / 'metadata.json'
        self.saved_meta = f.read_text()
        meta = json.loads(self.saved_meta)
        if field == 'old_layout':
            # what releases older than the minimal supported version wrote: one parameter set, no pool list
            meta = {'version': dict(meta['version'], mopepgen='1.2.1'),
                    'cleavage_params': meta['canonical_pools'][0]['cleavage_params'], 'source': meta['source']}
        else:
            meta['version'][field] = {'python': '3.7.0', 'biopython': '1.70', 'mopepgen': '0.9.0'}[field]
        f.write_text(json.dumps(meta, indent=2))
        self.skewed = field
        self.trans.append((self.state_sig(), 'skew', field))

    def op_unskew(self):
        if not self.skewed or not (self.exists and self.clean):
            return
        (self.ctx.index / 'metadata.json').write_text(self.saved_meta)
        self.skewed = None
        self.check_all('unskew')

    def apply(self, op):
        self.stats['kinds'][op[0]] = self.stats['kinds'].get(op[0], 0) + 1
        getattr(self, 'op_' + op[0])(*op[1:])


def apply_ops(ctx, ops):
    sim = Sim(ctx)
    for op in ops:
        sim.apply(tuple(op))
    return sim


def make_machine(ctx_factory, trace_box, stats_box, log=None):
    log = log or hyprun.HistoryLog()
    pn = st.sampled_from(PNAMES)

    class Machine(RuleBasedStateMachine):
        def __init__(self):
            super().__init__()
            self.ctx = ctx_factory()
            self.sim = Sim(self.ctx)
            self.trace = log.new_trace()
            trace_box[0] = self.trace
            stats_box.append(self.sim)

        def do(self, op):
            self.trace.append(list(op))
            try:
                self.sim.apply(op)
            except Violation as v:
                log.note(v)
                raise

        @initialize(ref=st.sampled_from(['A', 'B']), p=pn, symlink=st.sampled_from([False, False, False, True]),
                    flag=st.sampled_from([False, False, False, True]))
        def first(self, ref, p, symlink, flag):
            self.do(('gen', ref, p, False, symlink, flag))

        @rule(ref=st.sampled_from(['A', 'B']), p=pn, force=st.booleans(),
              symlink=st.sampled_from([False] * 7 + [True]), flag=st.sampled_from([False, False, False, True]),
              source=st.sampled_from([None, None, 'GENCODE']))
        def gen(self, ref, p, force, symlink, flag, source):
            self.do(('gen', ref, p, force, symlink, flag, source))

        @rule(p=pn, force=st.sampled_from([False, False, True]))
        def upd(self, p, force):
            self.do(('upd', p, force))

        @rule(p=pn, force=st.sampled_from([False, False, True]))
        def upd2(self, p, force):
            self.do(('upd', p, force))

        @rule(ref=st.sampled_from(['A', 'B']), p=pn, symlink=st.sampled_from([False] * 7 + [True]),
              flag=st.sampled_from([False, False, False, True]), k=st.integers(0, 32),
              torn=st.sampled_from([None, None, 0.0, 0.25, 0.5, 0.9]))
        def crash_gen(self, ref, p, symlink, flag, k, torn):
            self.do(('crash_gen', ref, p, symlink, flag, k, torn))

        @rule(p=pn, force=st.booleans(), k=st.integers(0, 8), torn=st.sampled_from([None, None, 0.0, 0.25, 0.5, 0.9]))
        def crash_upd(self, p, force, k, torn):
            self.do(('crash_upd', p, force, k, torn))

        @rule(p=pn)
        def load(self, p):
            self.do(('load', p))

        @rule(field=st.sampled_from(['python', 'biopython', 'mopepgen', 'old_layout']))
        def skew(self, field):
            self.do(('skew', field))

        @rule()
        def load_plain(self):
            self.do(('load_plain',))

        @rule()
        def unskew(self):
            self.do(('unskew',))

        def teardown(self):
            shutil.rmtree(self.ctx.dir, ignore_errors=True)
    return Machine


def case_refs(seed, idx):
    rng = R.case_rng(seed, ENGINE, idx)
    refs = {}
    for name in ('A', 'B'):
        texts, _, _ = workload.gen_reference(rng, rng.randint(3, 5))
        if rng.random() < 0.5:
            # proteins as real proteome FASTAs have them: a leading X, an internal X, an internal stop
            recs = texts['proteome_fa'].split('>')[1:]
            for kind in rng.sample(['lead_x', 'inner_x', 'stop'], rng.randint(1, 3)):
                if not recs:
                    break
                j = rng.randrange(len(recs))
                head, _, body = recs[j].partition('\n')
                body = body.replace('\n', '')
                if len(body) < 12:
                    continue
                if kind == 'lead_x':
                    body = 'X' + body[1:]
                else:
                    cut = rng.randrange(6, len(body) - 3)
                    body = body[:cut] + ('X' if kind == 'inner_x' else '*') + body[cut + 1:]
                recs[j] = head + '\n' + body + '\n'
            texts = dict(texts, proteome_fa=''.join('>' + r for r in recs), odd_proteome=True)
        refs[name] = texts
    return refs


def run_case(seed, task, tier):
    idx = task['case']
    refs = case_refs(seed, idx)
    out = {'executions': 0, 'signatures': [], 'violations': [], 'probes': {}, 'faults': {}, 'steps': 0}
    n_examples = 25 if tier == 'quick' else 50
    trace_box = [None]
    stats_box = []
    with cvcase.Scratch('c12_') as wd:
        counter = [0]

        def factory():
            counter[0] += 1
            return Ctx(refs, Path(wd) / f'h{counter[0]}')
        log = hyprun.HistoryLog()
        machine = make_machine(factory, trace_box, stats_box, log)
        hs = R.derive(seed, ENGINE, idx, 'hyp') % (2 ** 32)
        viol = None
        res = hyprun.run(machine, hs, n_examples, 12, log, Violation)
        if res is not None:
            viol_kind, viol = res
        if viol is not None:
            rep = {'property': PROPERTY, 'engine': ENGINE, 'clause': viol.clause, 'signature': viol.signature,
                   'detail': viol.detail, 'seed': seed, 'case': idx, 'hclass': task['hclass'],
                   'hashseed': driver.HASH_CLASSES[task['hclass']], 'refs': refs}
            rep.update(hyprun.report_fields(viol_kind, log, trace_box[0]))
            rep['digest'] = R.digest([seed, idx, viol.clause, rep['ops']])
            out['violations'].append(rep)
    states, transitions = set(), set()
    for sim in stats_box:
        out['executions'] += 1
        out['steps'] += sum(sim.stats['kinds'].values())
        for k, v in sim.stats['probes'].items():
            out['probes'][k] = out['probes'].get(k, 0) + v
            if k in ('skew_rejected', 'natural_failure', 'gen_on_existing_rejected') or k.startswith('crash'):
                out['faults'][k] = out['faults'].get(k, 0) + v
        for t in sim.trans:
            out['signatures'].append({'state': t[0], 'op': t[1], 'outcome': t[2]})
    if any(t.get('odd_proteome') for t in refs.values()):
        out['probes']['proteome_with_x_or_stop'] = 1
    out['sample'] = {'case': idx, 'n_histories': len(stats_box), 'last_history': trace_box[0]}
    return out


def aggregate(seed, tier, results):
    states = set()
    trans = set()
    for r in results:
        for s in r.get('signatures', []):
            states.add(json.dumps(s['state'], default=str))
            trans.add(json.dumps(s, default=str))
    return [], {'distinct_model_states': len(states), 'distinct_model_transitions': len(trans)}


def replay(rep):
    with cvcase.Scratch('c12r_') as wd:
        n = [0]

        def run_history(ops):
            n[0] += 1
            apply_ops(Ctx(rep['refs'], Path(wd) / f'h{n[0]}'), ops)
        v = hyprun.replay_with_histories(rep, run_history, Violation)
        if v is not None:
            return [dict(rep, clause=v.clause, signature=v.signature, detail=v.detail)]
    return []


def shrink_candidates(rep):
    ops = rep['ops']
    for i in range(len(ops) - 1, 0, -1):
        yield dict(rep, ops=ops[:i] + ops[i + 1:], histories=None)
