"""Second workload of C07: row failures in the four parsers that honour --skip-failed.

System: the real parse_* CLI entry functions on rows taken from the demo tool outputs (corpus copy).
Fault: the conversion of a PRNG-chosen subset of rows raises.  Reference model: the same command on the
input without those rows.
"""
import argparse
import contextlib
import io
import shutil
import sys
from pathlib import Path

from sim import boot, rng as R, cvcase, driver

boot.boot()

# pylint: disable=wrong-import-position
import moPepGen.cli.parse_vep  # noqa
import moPepGen.cli.parse_star_fusion  # noqa
import moPepGen.cli.parse_arriba  # noqa
import moPepGen.cli.parse_fusion_catcher  # noqa
from moPepGen.parser import VEPParser, STARFusionParser, ArribaParser, FusionCatcherParser

CORPUS = Path(__file__).resolve().parent.parent.parent / 'corpus' / 'demo'
ENGINE = 'parser-rows'

PARSERS = {
    'parseVEP': {
        'module': 'moPepGen.cli.parse_vep', 'func': 'parse_vep', 'files': ['vep/vep_snp.txt', 'vep/vep_indel.txt'],
        'record_cls': VEPParser.VEPRecord, 'method': 'convert_to_variant_record', 'list_input': True,
        'suffix': '.txt', 'source': 'gSNP', 'extra': {},
    },
    'parseSTARFusion': {
        'module': 'moPepGen.cli.parse_star_fusion', 'func': 'parse_star_fusion',
        'files': ['fusion/star_fusion.txt'], 'record_cls': STARFusionParser.STARFusionRecord,
        'method': 'convert_to_variant_records', 'list_input': False, 'suffix': '.txt', 'source': 'Fusion',
        'extra': {'min_est_j': 3.0},
    },
    'parseArriba': {
        'module': 'moPepGen.cli.parse_arriba', 'func': 'parse_arriba', 'files': ['fusion/arriba.txt'],
        'record_cls': ArribaParser.ArribaRecord, 'method': 'convert_to_variant_records',
        'list_input': False, 'suffix': '.txt', 'source': 'Fusion',
        'extra': {'min_split_read1': 1, 'min_split_read2': 1, 'min_confidence': 'medium'},
    },
    'parseFusionCatcher': {
        'module': 'moPepGen.cli.parse_fusion_catcher', 'func': 'parse_fusion_catcher',
        'files': ['fusion/fusion_catcher.txt'], 'record_cls': FusionCatcherParser.FusionCatcherRecord,
        'method': 'convert_to_variant_records', 'list_input': False, 'suffix': '.txt', 'source': 'Fusion',
        'extra': {'max_common_mapping': 0, 'min_spanning_unique': 5},
    },
}
EXC = {'ValueError': ValueError, 'KeyError': KeyError, 'RuntimeError': RuntimeError,
       'AssertionError': AssertionError, 'IndexError': IndexError}


def corpus_rows(parser):
    header, rows = [], []
    for f in PARSERS[parser]['files']:
        lines = (CORPUS / f).read_text().splitlines()
        for i, line in enumerate(lines):
            is_header = line.startswith('#') or (parser == 'parseFusionCatcher' and i == 0)
            if is_header:
                if not rows and line not in header:
                    header.append(line)
            elif line.strip():
                rows.append(line)
    return header, rows


def run_parser(parser, header, rows, wd, tag, skip_failed, fail_calls=(), exc='ValueError'):
    """Runs the real CLI function.  ``fail_calls``: indices (in order of conversion calls) that raise."""
    spec = PARSERS[parser]
    mod = sys.modules[spec['module']]
    d = Path(wd) / tag
    if d.exists():
        shutil.rmtree(d)
    d.mkdir(parents=True)
    inp = d / ('input' + spec['suffix'])
    inp.write_text('\n'.join(header + rows) + '\n')
    out = d / 'out.gvf'
    args = argparse.Namespace(
        command=parser, input_path=[inp] if spec['list_input'] else inp, output_path=out,
        source=spec['source'], index_dir=None, genome_fasta=CORPUS / 'genome.fasta',
        annotation_gtf=CORPUS / 'annotation.gtf', proteome_fasta=CORPUS / 'translate.fasta',
        reference_source=None, quiet=True, skip_failed=skip_failed, **spec['extra'])
    cls, meth = spec['record_cls'], spec['method']
    orig = getattr(cls, meth)
    state = {'n': 0, 'fired': [], 'natural': []}
    fail = set(fail_calls)

    def wrapped(self, *a, **k):
        i = state['n']
        state['n'] += 1
        if i in fail:
            state['fired'].append(i)
            raise EXC[exc]('injected row failure')
        try:
            return orig(self, *a, **k)
        except Exception as e:  # pylint: disable=broad-except
            state['natural'].append((i, type(e).__name__))
            raise
    tallies = []
    orig_tally = mod.TallyTable

    class Tally(orig_tally):
        def __init__(self, *a, **k):
            super().__init__(*a, **k)
            tallies.append(self)
    setattr(cls, meth, wrapped)
    mod.TallyTable = Tally
    res = {'ok': False, 'exc': None}
    try:
        with contextlib.redirect_stdout(io.StringIO()), contextlib.redirect_stderr(io.StringIO()):
            getattr(mod, spec['func'])(args)
        res['ok'] = True
    except SystemExit as e:
        res['exc'] = ('SystemExit', str(e.code))
    except Exception as e:  # pylint: disable=broad-except
        res['exc'] = (type(e).__name__, str(e)[:200])
    finally:
        setattr(cls, meth, orig)
        mod.TallyTable = orig_tally
    res['calls'] = state['n']
    res['fired'] = state['fired']
    res['natural'] = state['natural']
    res['gvf_exists'] = out.exists()
    res['records'] = [l for l in out.read_text().splitlines() if not l.startswith('#')] \
        if out.exists() else None
    if tallies:
        t = tallies[0]
        if hasattr(t, 'failed'):
            res['tally'] = {'total': t.total, 'succeed': t.succeed, 'failed': t.failed.total}
        else:
            res['tally'] = {'total': t.total, 'succeed': t.succeed, 'failed': t.skipped.total,
                            'invalid_position': t.skipped.invalid_position}
    return res


def judge(parser, header, rows, wd, fail_rows, exc):
    """fail_rows are indices into ``rows``; only rows that reach the conversion are eligible."""
    # map conversion-call index -> row index through a fault-free run on each prefix is too costly; instead
    # run fault-free once with a tracer of which rows reach the conversion.
    f0 = run_parser(parser, header, rows, wd, 'f0', False)
    if not f0['ok']:
        return None, {'invalid': f0['exc']}
    # which rows reach the conversion: run each row alone (rows are independent in all four parsers)
    reach = []
    for i, r in enumerate(rows):
        one = run_parser(parser, header, [r], wd, 'one', False)
        reach.append(one['calls'] == 1)
    call_of_row = {}
    c = 0
    for i, ok in enumerate(reach):
        if ok:
            call_of_row[i] = c
            c += 1
    fail_rows = [i for i in fail_rows if i in call_of_row]
    if not fail_rows:
        return None, {'invalid': 'no eligible row'}
    calls = [call_of_row[i] for i in fail_rows]
    a = run_parser(parser, header, rows, wd, 'a', True, calls, exc)
    b = run_parser(parser, header, [r for i, r in enumerate(rows) if i not in fail_rows], wd, 'b', True)
    a2 = run_parser(parser, header, rows, wd, 'a2', False, calls, exc)
    out = []
    if not a['ok']:
        out.append(('parser-completes', f"parser-completes:{parser}:{a['exc'][0]}", {'exc': a['exc']}))
    elif not b['ok']:
        return None, {'invalid': ('model failed', b['exc'])}
    else:
        if a['records'] != b['records']:
            out.append(('parser-isolation', f'parser-isolation:{parser}',
                        {'faulted': a['records'], 'rows_removed': b['records'], 'failed_rows': fail_rows}))
        if a.get('tally') and b.get('tally'):
            exp_failed = b['tally']['failed'] + len(fail_rows)
            if a['tally']['failed'] != exp_failed or a['tally']['succeed'] != b['tally']['succeed'] \
                    or a['tally']['total'] != len(rows):
                out.append(('parser-tally', f'parser-tally:{parser}',
                            {'tally': a['tally'], 'model_tally': b['tally'], 'n_failed_rows': len(fail_rows)}))
    if a2['ok'] or a2['gvf_exists']:
        out.append(('parser-abort', f"parser-abort:{parser}:{'completed' if a2['ok'] else 'gvf-left'}",
                    {'completed': a2['ok'], 'gvf_exists': a2['gvf_exists']}))
    return out, {'fired': len(a['fired']), 'n_rows': len(rows), 'reach': sum(reach)}


# rows that fail by themselves inside the conversion (malformed or impossible coordinates): column, new value
NATURAL = {
    'parseVEP': [(1, 'chr22:1179-'), (1, 'HLA-DRB1*15:01:01:01:1179'), (1, 'chr22:99999999'),
                 (1, 'chr22:0'), (3, 'ENSG00000999999.1'), (4, 'ENST00000999999.1')],
    'parseSTARFusion': [(7, 'chr22:99999999:+'), (9, 'chr22:99999999:+'), (7, 'chr22:0:+')],
    'parseArriba': [(4, 'chr22:99999999'), (5, 'chr22:99999999'), (4, 'chr22:0')],
    'parseFusionCatcher': [(8, '22:99999999:+'), (9, '22:99999999:-'), (8, '22:0:+')],
}


def mutate_row(rng, parser, row):
    col, val = rng.choice(NATURAL[parser])
    f = row.split('\t')
    if col >= len(f):
        return row
    f[col] = val
    return '\t'.join(f)


def judge_natural(parser, header, rows, wd):
    """Rows that fail by themselves: classified by running each row alone WITHOUT the flag with a recorder around
    the conversion method.  'convert-raises' rows are the failing units; rows that abort elsewhere (while the
    file is being read) are outside what --skip-failed covers and are dropped from the case."""
    kinds = []
    for r in rows:
        one = run_parser(parser, header, [r], wd, 'one', False)
        if one['ok']:
            kinds.append('ok')
        elif one['natural']:
            kinds.append('convert-raises')
        else:
            kinds.append('other-abort')
    rows = [r for r, k in zip(rows, kinds) if k != 'other-abort']
    kinds = [k for k in kinds if k != 'other-abort']
    bad = [i for i, k in enumerate(kinds) if k == 'convert-raises']
    if not bad or len(bad) == len(rows):
        return None, {'invalid': 'no naturally failing row' if not bad else 'only failing rows'}
    a = run_parser(parser, header, rows, wd, 'a', True)
    b = run_parser(parser, header, [r for i, r in enumerate(rows) if i not in bad], wd, 'b', True)
    a2 = run_parser(parser, header, rows, wd, 'a2', False)
    out = []
    if not a['ok']:
        out.append(('parser-completes', f"parser-completes:{parser}:natural:{a['exc'][0]}",
                    {'exc': a['exc'], 'failing_rows': [rows[i] for i in bad][:3]}))
    elif not b['ok']:
        return None, {'invalid': ('model failed', b['exc'])}
    else:
        if a['records'] != b['records']:
            out.append(('parser-isolation', f'parser-isolation:{parser}:natural',
                        {'faulted': a['records'], 'rows_removed': b['records'], 'failing_rows': bad}))
        if a.get('tally') and b.get('tally'):
            if a['tally']['failed'] != b['tally']['failed'] + len(bad) or a['tally']['succeed'] != b['tally']['succeed'] \
                    or a['tally']['total'] != len(rows):
                out.append(('parser-tally', f'parser-tally:{parser}:natural',
                            {'tally': a['tally'], 'model_tally': b['tally'], 'n_failed_rows': len(bad)}))
    if a2['ok'] or a2['gvf_exists']:
        out.append(('parser-abort', f"parser-abort:{parser}:natural:{'completed' if a2['ok'] else 'gvf-left'}",
                    {'completed': a2['ok'], 'gvf_exists': a2['gvf_exists']}))
    return out, {'fired': len(bad), 'n_rows': len(rows), 'reach': len(rows),
                 'natural_exc': sorted({x[1] for x in a2['natural']})}


def gen(seed, idx):
    rng = R.case_rng(seed, ENGINE, idx)
    parser = rng.choice(sorted(PARSERS))
    header, pool = corpus_rows(parser)
    n = rng.randint(2, 7)
    rows = [rng.choice(pool) for _ in range(n)]
    k = rng.randint(1, max(1, n - 1))
    fail_rows = sorted(rng.sample(range(n), k))
    exc = rng.choice(sorted(EXC))
    if rng.random() < 0.4:
        # natural mode: some rows are made to fail by themselves instead of by injection
        rows = [mutate_row(rng, parser, r) if i in fail_rows else r for i, r in enumerate(rows)]
        exc = 'natural'
    return parser, header, rows, fail_rows, exc


def run_case(seed, task, tier, prop):
    idx = task['case']
    parser, header, rows, fail_rows, exc = gen(seed, idx)
    out = {'executions': 0, 'signatures': [], 'violations': [], 'probes': {'parser_rows_case': 1},
           'faults': {}}
    with cvcase.Scratch('c07p_') as wd:
        if exc == 'natural':
            res, info = judge_natural(parser, header, rows, wd)
        else:
            res, info = judge(parser, header, rows, wd, fail_rows, exc)
        out['executions'] += 4 + len(rows)
        if res is None:
            out['invalid'] = True
            out['invalid_reason'] = info.get('invalid')
            return out
        out['faults'][f'parser_row:{parser}:{exc}'] = info['fired']
        out['signatures'].append({'parser': parser, 'n_rows': len(rows), 'failed_rows': fail_rows, 'exc': exc})
        for clause, sig, detail in res:
            rep = {'property': prop, 'engine': ENGINE, 'clause': clause, 'signature': sig, 'detail': detail,
                   'seed': seed, 'case': idx, 'hclass': task['hclass'],
                   'hashseed': driver.HASH_CLASSES[task['hclass']], 'parser': parser, 'header': header,
                   'rows': rows, 'fail_rows': fail_rows, 'exc': exc}
            rep['digest'] = R.digest([seed, idx, clause])
            out['violations'].append(rep)
    out['sample'] = {'case': idx, 'parser': parser, 'n_rows': len(rows), 'failed_rows': fail_rows, 'exc': exc}
    return out


def replay(rep):
    with cvcase.Scratch('c07pr_') as wd:
        if rep['exc'] == 'natural':
            res, _ = judge_natural(rep['parser'], rep['header'], rep['rows'], wd)
        else:
            res, _ = judge(rep['parser'], rep['header'], rep['rows'], wd, rep['fail_rows'], rep['exc'])
    if res is None:
        return []
    return [dict(rep, clause=c, signature=s, detail=d) for c, s, d in res]


def shrink_candidates(rep):
    rows, fail = rep['rows'], rep['fail_rows']
    if rep['exc'] == 'natural':
        for i in range(len(rows) - 1, -1, -1):
            if len(rows) > 2:
                yield dict(rep, rows=rows[:i] + rows[i + 1:], fail_rows=[])
        return
    for i in range(len(rows) - 1, -1, -1):
        if i in fail and len(fail) == 1:
            continue
        new_fail = [j - 1 if j > i else j for j in fail if j != i]
        yield dict(rep, rows=rows[:i] + rows[i + 1:], fail_rows=new_fail)
    if len(fail) > 1:
        for i in fail:
            yield dict(rep, fail_rows=[j for j in fail if j != i])
