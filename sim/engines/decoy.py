"""Engine decoy (C20, reproducibility / order-independence clause + structural monitors).

The simulator owns: the prior state of the global PRNG, PYTHONHASHSEED (second interpreter) and the arrival
order of the target records.
"""
import argparse
import contextlib
import io
import json
import os
import random
import subprocess
import sys
from pathlib import Path

from sim import boot, rng as R, cvcase, driver

boot.boot()

# pylint: disable=wrong-import-position
import moPepGen.cli.decoy_fasta  # noqa

df = sys.modules['moPepGen.cli.decoy_fasta']

PROPERTY = 'C20'
ENGINE = 'decoy'
BUDGET_S = {'quick': 90, 'thorough': 900}
CASE_TIMEOUT_S = 600
STUBS = []
PROBES = ['shuffle', 'reverse', 'seed_none', 'low_complexity', 'collision_retry_exhausted', 'hashseed_pair',
          'callvariant_targets', 'il_twin_targets', 'duplicate_sequences', 'enzyme', 'non_shuffle_pattern', 'suffix', 'target_first', 'decoy_first']
RULE = ('case = target FASTA (random peptides incl. low-complexity ones that force shuffle collisions, I/L twin '
        'pairs, sometimes one sequence under several headers, or the FASTA of a simulated callVariant run) x option set (method, enzyme, keep N/C-term, '
        'non-shuffle pattern, order, decoy string position, max attempts, seed); executions: two prior global-RNG '
        'states, a permuted arrival order, and for a quarter of the cases a fresh interpreter under another '
        'PYTHONHASHSEED.  distinct = distinct (method, enzyme, pattern, order, position, seed is None, #targets '
        'bucket) option signatures')
ASSUMPTIONS = [
    'most inputs have unique sequences (what the callers emit); on the 15 % of inputs with the same sequence under '
    'several headers only the per-record clauses are judged (which of two equal sequences gets which draw is not '
    'promised, so record-set order independence is ill-defined there)',
    'fixed positions are monitored for the peptide termini and the listed residues only; the residues at the '
    "enzyme's cleavage sites need a digestion oracle (pure-input clause, not decided here)",
]
AA = 'ACDEFGHIKLMNPQRSTVWY'


def n_cases(tier):
    return 240 if tier == 'quick' else 30000


def tasks(seed, tier, n):
    ts = []
    for i in range(n):
        ts.append({'case': i, 'mode': 'main', 'hclass': i % 4})
    return ts


def gen_targets(rng):
    peps = set()
    n = rng.randint(2, 40)
    low = rng.random() < 0.4
    while len(peps) < n:
        L = rng.randint(5, 22)
        if low and rng.random() < 0.5:
            alpha = rng.sample(AA, rng.randint(1, 2)) + ['K']
            s = ''.join(rng.choice(alpha) for _ in range(rng.randint(3, 8)))
        else:
            s = ''.join(rng.choice(AA) for _ in range(L))
        peps.add(s)
    # I/L twins: what an I>L (or L>I) SNV produces -- two distinct targets that differ only by I/L
    if rng.random() < 0.35:
        for s in sorted(peps):
            if ('I' in s or 'L' in s) and rng.random() < 0.5:
                i = rng.choice([k for k, c in enumerate(s) if c in 'IL'])
                peps.add(s[:i] + ('L' if s[i] == 'I' else 'I') + s[i + 1:])
    peps = sorted(peps)
    rng.shuffle(peps)
    # the same sequence under several headers (legal FASTA, e.g. a proteome with identical paralogs): only the
    # per-record clauses are judged on such inputs (the caller checks ``dups``)
    if rng.random() < 0.15:
        peps += [rng.choice(peps) for _ in range(rng.randint(1, 3))]
        rng.shuffle(peps)
    return [(f'T{j}|ENST{rng.randint(1, 99)}|SNV-{rng.randint(1, 999)}-A-T|{j}', s) for j, s in enumerate(peps)], low


def gen_options(rng):
    return {
        'method': rng.choice(['shuffle', 'shuffle', 'reverse']),
        'enzyme': rng.choice([None, None, 'trypsin', 'lysc', 'chymotrypsin high specificity']),
        'keep_peptide_nterm': rng.choice(['true', 'false']),
        'keep_peptide_cterm': rng.choice(['true', 'false']),
        'non_shuffle_pattern': rng.choice(['', '', 'K,R', 'P', 'K']),
        'shuffle_max_attempts': rng.choice([1, 3, 30]),
        'seed': rng.choice([None, 0, 1, 42, rng.randint(0, 2 ** 31)]),
        'decoy_string': rng.choice(['DECOY_', 'rev_', '_DECOY']),
        'decoy_string_position': rng.choice(['prefix', 'prefix', 'suffix']),
        'order': rng.choice(['juxtaposed', 'target_first', 'decoy_first']),
    }


def fasta_text(targets):
    return ''.join(f'>{h}\n{s}\n' for h, s in targets)


def run_decoy(targets, opts, workdir, tag, prior=None):
    """One execution of the real decoyFasta.  ``prior`` = (seed, n_draws) applied to the global PRNG first."""
    d = Path(workdir)
    d.mkdir(parents=True, exist_ok=True)
    inp, out = d / f'{tag}_in.fasta', d / f'{tag}_out.fasta'
    inp.write_text(fasta_text(targets))
    if out.exists():
        out.unlink()
    state = random.getstate()
    if prior is not None:
        random.seed(prior[0])
        for _ in range(prior[1]):
            random.random()
    args = argparse.Namespace(command='decoyFasta', input_path=inp, output_path=out, quiet=True, debug_level=1,
                              **opts)
    try:
        with contextlib.redirect_stdout(io.StringIO()), contextlib.redirect_stderr(io.StringIO()):
            df.decoy_fasta(args)
        return {'ok': True, 'bytes': out.read_text()}
    except Exception as e:  # pylint: disable=broad-except
        return {'ok': False, 'exc': (type(e).__name__, str(e)[:200])}
    finally:
        random.setstate(state)


def parse_out(text):
    recs = []
    h, cur = None, []
    for line in text.splitlines():
        if line.startswith('>'):
            if h is not None:
                recs.append((h, ''.join(cur)))
            h, cur = line[1:], []
        else:
            cur.append(line)
    if h is not None:
        recs.append((h, ''.join(cur)))
    return recs


def structure(targets, opts, text):
    """Structural monitors.  Returns list of (signature, detail)."""
    recs = parse_out(text)
    ds, pos = opts['decoy_string'], opts['decoy_string_position']
    tset = {h: s for h, s in targets}
    bad = []

    def is_decoy_header(h):
        base = h[len(ds):] if pos == 'prefix' and h.startswith(ds) else \
            h[:-len(ds)] if pos == 'suffix' and h.endswith(ds) else None
        return base if base in tset and h not in tset else None
    t_recs = [(h, s) for h, s in recs if h in tset]
    d_recs = [(h, s) for h, s in recs if h not in tset]
    if sorted(t_recs) != sorted(targets):
        bad.append(('structure:targets-changed', {'n_in': len(targets), 'n_out_targets': len(t_recs)}))
    seen = {}
    for h, s in d_recs:
        base = is_decoy_header(h)
        if base is None:
            bad.append(('structure:decoy-header', {'header': h}))
            continue
        seen[base] = seen.get(base, 0) + 1
        if sorted(s) != sorted(tset[base]):
            bad.append(('structure:not-a-permutation', {'target': tset[base], 'decoy': s}))
        elif len(s) == len(tset[base]):
            # requested fixed positions that need no digestion oracle: peptide termini and listed residues
            t = tset[base]
            moved = []
            if opts['keep_peptide_nterm'] == 'true' and s[0] != t[0]:
                moved.append(0)
            if opts['keep_peptide_cterm'] == 'true' and s[-1] != t[-1]:
                moved.append(len(t) - 1)
            pat = [x for x in opts['non_shuffle_pattern'].split(',') if x]
            moved += [i for i, c in enumerate(t) if c in pat and s[i] != c]
            if moved:
                bad.append(('structure:fixed-position-moved',
                            {'target': t, 'decoy': s, 'positions': sorted(set(moved)),
                             'opts': {k: opts[k] for k in ('method', 'enzyme', 'keep_peptide_nterm',
                                                           'keep_peptide_cterm', 'non_shuffle_pattern')}}))
    if set(seen) != set(tset) or any(v != 1 for v in seen.values()):
        bad.append(('structure:one-decoy-per-target',
                    {'missing': sorted(set(tset) - set(seen))[:3], 'multiple': [k for k, v in seen.items() if v > 1][:3]}))
    kinds = ['T' if h in tset else 'D' for h, _ in recs]
    n = len(targets)
    want = {'juxtaposed': ['T', 'D'] * n, 'target_first': ['T'] * n + ['D'] * n,
            'decoy_first': ['D'] * n + ['T'] * n}[opts['order']]
    if kinds != want and not bad:
        bad.append(('structure:order', {'order': opts['order'], 'got': ''.join(kinds)[:60]}))
    if opts['order'] == 'juxtaposed' and not bad:
        for i in range(0, len(recs), 2):
            if is_decoy_header(recs[i + 1][0]) != recs[i][0]:
                bad.append(('structure:juxtaposed-pairing', {'target': recs[i][0], 'decoy': recs[i + 1][0]}))
                break
    return bad


def other_interpreter(path):
    """Entry for the second interpreter: runs the case stored in ``path`` and returns the output bytes."""
    rep = json.loads(Path(path).read_text())
    with cvcase.Scratch('c20h_') as wd:
        r = run_decoy([tuple(t) for t in rep['targets']], rep['opts'], wd, 'h', tuple(rep['prior']))
    return r


def judge(targets, opts, wd, priors, perm, hash_other=None):
    out = []
    a = run_decoy(targets, opts, wd, 'a', priors[0])
    if not a['ok']:
        return None, a
    for sig, detail in structure(targets, opts, a['bytes']):
        out.append((sig.split(':')[0] + ':' + sig.split(':')[1], sig, detail))
    if opts['seed'] is None:
        return out, a
    b = run_decoy(targets, opts, wd, 'b', priors[1])
    if not b['ok'] or b['bytes'] != a['bytes']:
        out.append(('reproducible-rng', 'reproducible-rng', {'priors': priors, 'second': b.get('exc')}))
    # reproducible whatever the process did before: another call on the same targets with MORE fixed positions
    # (and another seed) in between must not change what the original options produce
    more = dict(opts, keep_peptide_nterm='true', keep_peptide_cterm='true',
                non_shuffle_pattern=','.join(sorted(set((opts['non_shuffle_pattern'] or '').split(',') + ['K', 'P', 'L'])
                                                    - {''})),
                seed=(opts['seed'] or 0) + 17)
    x = run_decoy(targets, more, wd, 'x', priors[1])
    a2 = run_decoy(targets, opts, wd, 'a2', priors[0])
    if x['ok'] and (not a2['ok'] or a2['bytes'] != a['bytes']):
        out.append(('reproducible-history', 'reproducible-history',
                    {'intervening_options': {k: more[k] for k in ('keep_peptide_nterm', 'keep_peptide_cterm',
                                                                  'non_shuffle_pattern', 'seed')},
                     'second': a2.get('exc')}))
    # ... and neither must a call on OTHER targets: the decoys this run produced, submitted as the targets of an
    # intervening run in the same interpreter (state shared between DecoyFasta objects -- a collision pool, a cache
    # -- would make the original run redraw)
    th = dict(targets)
    others = [(f'U{j}|{h}', q) for j, (h, q) in enumerate(parse_out(a['bytes'])) if h not in th]
    others = list({q: (h, q) for h, q in others}.values())
    if others:
        y = run_decoy(others, opts, wd, 'y', priors[1])
        a3 = run_decoy(targets, opts, wd, 'a3', priors[0])
        if y['ok'] and (not a3['ok'] or a3['bytes'] != a['bytes']):
            out.append(('reproducible-history', 'reproducible-history:other-targets',
                        {'intervening_targets': 'the decoys of the first run', 'second': a3.get('exc')}))
    permuted = [targets[i] for i in perm]
    c = run_decoy(permuted, opts, wd, 'c', priors[0])
    dups = len({s for _, s in targets}) < len(targets)
    if dups:
        # duplicated sequences: which of two equal sequences gets which draw is not promised, so only the
        # per-record clauses are judged on the permuted run
        if c['ok']:
            for sig, detail in structure(permuted, opts, c['bytes']):
                out.append((sig.split(':')[0] + ':' + sig.split(':')[1], sig, dict(detail, permuted=True)))
        else:
            out.append(('order-independent', 'order-independent:raised', {'exc': c['exc']}))
    elif not c['ok']:
        out.append(('order-independent', 'order-independent:raised', {'exc': c['exc']}))
    else:
        ra, rc = parse_out(a['bytes']), parse_out(c['bytes'])
        if sorted(ra) != sorted(rc):
            da = sorted(set(ra) - set(rc))[:3]
            out.append(('order-independent', 'order-independent:records',
                        {'only_original_order': da, 'only_permuted': sorted(set(rc) - set(ra))[:3]}))
        elif ra != rc:
            out.append(('order-independent', 'order-independent:arrangement', {}))
    if hash_other is not None:
        tmp = Path(wd) / 'hash_case.json'
        tmp.write_text(json.dumps({'targets': targets, 'opts': opts, 'prior': priors[0]}))
        p = subprocess.run([sys.executable, driver.WORKER_MAIN, 'call', 'sim.engines.decoy', 'other_interpreter',
                            str(tmp)], env=driver.worker_env(hash_other), capture_output=True, text=True,
                           timeout=300, cwd=str(driver.VERIF))
        line = [l for l in p.stdout.splitlines() if l.startswith('CALL-RESULT ')]
        if not line:
            raise RuntimeError('second interpreter failed: ' + p.stderr[-500:])
        h = json.loads(line[0][len('CALL-RESULT '):])
        if not h.get('ok') or h['bytes'] != a['bytes']:
            out.append(('reproducible-hashseed', 'reproducible-hashseed', {'other_hclass': hash_other}))
    return out, a


def callvariant_targets(rng):
    from sim import cvrun
    case = cvcase.gen_case(rng, n_genes=3, n_records=8, cluster=False,
                           config=dict(cvcase.gen_config(rng, small=True), noncanonical_transcripts=False))
    with cvcase.Scratch('c20cv_') as wd:
        ref, files, out = cvcase.materialise(case, cvcase.reference_layout(case), wd, 'ref')
        run = cvrun.run_callvariant(ref, files, out, case['config'], {})
        if not run.ok or len(run.fasta) < 2:
            return None
        items = sorted(run.fasta.items())[:60]
        return [(' '.join(e), s) for s, e in items]


def run_case(seed, task, tier):
    idx = task['case']
    rng = R.case_rng(seed, ENGINE, idx)
    out = {'executions': 0, 'signatures': [], 'violations': [], 'probes': {}, 'faults': {}}
    probes = out['probes']
    targets, low = gen_targets(rng)
    if idx % 12 == 5:
        t2 = callvariant_targets(rng)
        if t2:
            targets, low = t2, False
            probes['callvariant_targets'] = 1
    opts = gen_options(rng)
    priors = [(rng.randint(0, 999), rng.randint(0, 50)), (rng.randint(1000, 1999), rng.randint(0, 50))]
    perm = list(range(len(targets)))
    rng.shuffle(perm)
    hash_other = (task['hclass'] + 1 + idx // 4 % 3) % 4 if (idx % 4 == 2 and opts['seed'] is not None) else None
    with cvcase.Scratch('c20_') as wd:
        res, a = judge(targets, opts, wd, priors, perm, hash_other)
    if res is None:
        out['invalid'] = True
        out['invalid_reason'] = a.get('exc')
        out['executions'] = 1
        return out
    out['executions'] = 1 if opts['seed'] is None else (8 if hash_other is not None else 7)
    out['faults']['rng_state_perturbed'] = 0 if opts['seed'] is None else 1
    out['faults']['arrival_order_permuted'] = 0 if opts['seed'] is None else 1
    out['faults']['hashseed_changed'] = 1 if hash_other is not None else 0
    out['faults']['intervening_call_other_options'] = 0 if opts['seed'] is None else 1
    probes[opts['method']] = 1
    if opts['seed'] is None:
        probes['seed_none'] = 1
    if low:
        probes['low_complexity'] = 1
    seqs = [s for _, s in targets]
    if len(set(seqs)) < len(seqs):
        probes['duplicate_sequences'] = 1
    if len({s.replace('I', 'L') for s in set(seqs)}) < len(set(seqs)):
        probes['il_twin_targets'] = 1
    if hash_other is not None:
        probes['hashseed_pair'] = 1
    if opts['enzyme']:
        probes['enzyme'] = 1
    if opts['non_shuffle_pattern']:
        probes['non_shuffle_pattern'] = 1
    if opts['decoy_string_position'] == 'suffix':
        probes['suffix'] = 1
    if opts['order'] != 'juxtaposed':
        probes[opts['order']] = 1
    recs = parse_out(a['bytes'])
    tseqs = {s for _, s in targets}
    if any(s in tseqs for h, s in recs if h not in dict(targets)):
        probes['collision_retry_exhausted'] = 1
    out['signatures'].append({'method': opts['method'], 'enzyme': opts['enzyme'],
                              'pattern': opts['non_shuffle_pattern'], 'order': opts['order'],
                              'pos': opts['decoy_string_position'], 'seed_none': opts['seed'] is None,
                              'n': min(40, len(targets)) // 8, 'nterm': opts['keep_peptide_nterm'],
                              'cterm': opts['keep_peptide_cterm']})
    for clause, sig, detail in res:
        rep = {'property': PROPERTY, 'engine': ENGINE, 'clause': clause, 'signature': sig, 'detail': detail,
               'seed': seed, 'case': idx, 'hclass': task['hclass'],
               'hashseed': driver.HASH_CLASSES[task['hclass']], 'targets': targets, 'opts': opts,
               'priors': priors, 'perm': perm, 'hash_other': hash_other}
        rep['digest'] = R.digest([seed, idx, clause])
        out['violations'].append(rep)
    out['sample'] = {'case': idx, 'n_targets': len(targets), 'opts': opts, 'priors': priors,
                     'first_targets': targets[:3]}
    return out


def replay(rep):
    targets = [tuple(t) for t in rep['targets']]
    with cvcase.Scratch('c20r_') as wd:
        res, _ = judge(targets, rep['opts'], wd, [tuple(p) for p in rep['priors']], rep['perm'],
                       rep.get('hash_other'))
    if res is None:
        return []
    return [dict(rep, clause=c, signature=s, detail=d) for c, s, d in res]


def shrink_candidates(rep):
    targets, perm = rep['targets'], rep['perm']
    n = len(targets)
    for i in range(n - 1, -1, -1):
        if n <= 1:
            break
        new_t = targets[:i] + targets[i + 1:]
        new_p = [p - 1 if p > i else p for p in perm if p != i]
        yield dict(rep, targets=new_t, perm=new_p)
    for k, v in (('enzyme', None), ('non_shuffle_pattern', ''), ('keep_peptide_nterm', 'false'),
                 ('keep_peptide_cterm', 'false'), ('order', 'juxtaposed'), ('decoy_string_position', 'prefix')):
        if rep['opts'].get(k) != v:
            yield dict(rep, opts=dict(rep['opts'], **{k: v}))
