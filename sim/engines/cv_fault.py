"""Engine cv-fault (C07): --skip-failed isolates failing processing units; without it failures abort.

Executions per case (same input, unit-scoped order seam):
  F0  fault-free, every unit traced to measure its length in line events
  A   faults injected, --skip-failed
  B   the same units replaced by the repository's own empty return, --skip-failed   (reference model)
  A'  faults injected, no --skip-failed
"""
from sim import rng as R
from sim import cvcase, cvrun, driver, workload
from sim.engines import parser_rows

PROPERTY = 'C07'
ENGINE = 'cv-fault'
BUDGET_S = {'quick': 170, 'thorough': 1500}
CASE_TIMEOUT_S = 1200
STUBS = ['pathos ParallelPool -> SimPool', 'cli.common.signal -> FakeSignal (never fires in this engine)']
PROBES = ['corpus_case', 'step_cap_discarded', 'fault_entry', 'fault_mid_unit', 'fault_gather', 'multi_fault', 'all_units_of_tx', 'early_unit_of_rich_tx', 'every_unit',
          'threads_gt_1', 'fusion_unit_failed', 'circ_unit_failed', 'main_unit_failed', 'absorbed',
          'abort_checked', 'later_unit_after_failed_unit', 'parser_rows_case', 'natural_case',
          'natural_unit_failed', 'natural_with_surviving_units', 'timeout_once_fired', 'timeout_once_absorbed_by_retry']
RULE = ('case = generated or corpus reference + records (mix biased to fusions/circRNAs so transcripts have s'
        'everal units); fault plan = non-empty subset of processing units (main / fusion / circRNA / data gat'
        'hering), a quarter of the plans an early unit of a transcript with >= 3 units, each failing at entry'
        ' with an ordinary exception class (incl. TimeoutError) or at the k-th line event inside the unit; th'
        'reads 1..4 via SimPool.  1 case in 7: units that fail by themselves under cleavage rules the graph c'
        'ode cannot handle.  2 cases in 7: parser rows (parseVEP/STARFusion/FusionCatcher/Arriba on the demo '
        'tool outputs; failures injected around the conversion or rows that fail by themselves).  distinct = '
        'distinct (unit kinds, site class + file:line, exception class, |F|, threads) signatures whose faults'
        ' actually fired and were not absorbed')
ASSUMPTIONS = [
    'an interior fault is an InjectedFault(Exception) raised from a line event of moPepGen/Bio code: C-level '
    'code is atomic with respect to it',
    'a fault that fired but was swallowed by an inner handler of the product (unit returned normally) is '
    'discarded as absorbed, not judged',
    'SimPool turns a worker-side exception into a None result, as ppft does',
]

MIX = {'small': 0.5, 'fusion': 0.18, 'circ': 0.2, 'altsplice': 0.12}
ENTRY_EXC = ['ValueError', 'KeyError', 'RuntimeError', 'AssertionError', 'IndexError', 'TimeoutError']


def n_cases(tier):
    return 84 if tier == 'quick' else 4000


def tasks(seed, tier, n):
    ts = []
    for i in range(n):
        mode = 'parser' if i % 7 in (3, 6) else 'natural' if i % 7 == 5 else 'main'
        ts.append({'case': i, 'mode': 'main', 'kind': mode, 'hclass': i % 4})
    return ts


# cleavage rules under which the graph code of the pinned tree raises IndexError in most units (DESIGN 3.3): useless
# as a fault-free workload, but a source of units that fail BY THEMSELVES, deep inside the real code
NATURAL_RULES = ['lysc', 'arg-c', 'cnbr', 'clostripain', 'formic acid', 'glutamyl endopeptidase', 'proteinase k',
                 'bnps-skatole', 'iodosobenzoic acid', 'staphylococcal peptidase i']


def run_natural(seed, task, tier):
    """Units that fail without injection.  A = --skip-failed (failing units recorded by the unit wrappers);
    B = the same units replaced by the repository's empty return; A' = without the flag."""
    idx = task['case']
    rng = R.case_rng(seed, ENGINE, idx, 'natural')
    cfg = cvcase.gen_config(rng)
    cfg.update(cleavage_rule=rng.choice(NATURAL_RULES), cleavage_exception=None, miscleavage=rng.choice([0, 1, 2]),
               noncanonical_transcripts=False)
    case = cvcase.gen_case(rng, config=cfg, mix=MIX, n_genes=rng.randint(3, 6))
    threads = rng.choice([1, 1, 2, 3])
    sched = {'pool_seed': rng.getrandbits(32), 'salt': rng.choice([0, rng.getrandbits(30) | 1])}
    out = {'executions': 0, 'signatures': [], 'violations': [], 'probes': {'natural_case': 1}, 'faults': {}, 'steps': 0}
    with cvcase.Scratch('c07n_') as wd:
        res, info = judge_natural(case, wd, threads, sched)
        out['executions'] += info.get('executions', 1)
        if res is None:
            out['invalid'] = True
            out['invalid_reason'] = info.get('invalid')
            return out
        for key, exc in info['failed']:
            k = f"{key.split('|')[0]}:natural:{exc}"
            out['faults'][k] = out['faults'].get(k, 0) + 1
        out['probes']['natural_unit_failed'] = len(info['failed'])
        if info.get('survivors'):
            out['probes']['natural_with_surviving_units'] = 1
        out['signatures'].append({'rule': cfg['cleavage_rule'], 'threads': threads,
                                  'failed_kinds': sorted({k.split('|')[0] for k, _ in info['failed']}),
                                  'survivors': bool(info.get('survivors'))})
        for clause, sig, detail in res:
            rep = {'property': PROPERTY, 'engine': ENGINE, 'clause': clause, 'signature': sig, 'detail': detail,
                   'seed': seed, 'case': idx, 'hclass': task['hclass'],
                   'hashseed': driver.HASH_CLASSES[task['hclass']], 'case_data': case, 'natural': True,
                   'threads': threads, 'sched': sched}
            rep['digest'] = R.digest([seed, idx, clause, 'natural'])
            out['violations'].append(rep)
    out['sample'] = {'case': idx, 'natural': True, 'config': cfg, 'stats': case['stats'], 'threads': threads,
                     'failed_units': info['failed'][:8]}
    return out


def judge_natural(case, wd, threads, sched):
    a = execute(case, wd, 'a', threads, sched, True)
    info = {'executions': 1, 'failed': list(a.natural_failed)}
    if a.wall_capped:
        return None, dict(info, invalid='wall budget')
    if not a.natural_failed:
        return None, dict(info, invalid='no unit failed by itself')
    out = []
    failed = sorted({k for k, _ in a.natural_failed})
    kinds_tag = '+'.join(sorted({k.split('|')[0] for k in failed}))
    excs = '+'.join(sorted({e for _, e in a.natural_failed}))
    if not a.ok:
        out.append(('completes', f'completes:natural:{a.exc[0]}:{kinds_tag}',
                    {'exc': a.exc, 'tb': (a.exc_tb or '')[-700:], 'failed_units': failed[:6], 'unit_exceptions': excs}))
    else:
        b = execute(case, wd, 'b', threads, sched, True, skip_units=set(failed))
        info['executions'] += 1
        if b.ok and not b.natural_failed:
            info['survivors'] = bool(b.fasta)
            sa, sb = set(a.fasta), set(b.fasta)
            if sa != sb:
                out.append(('isolation', f'isolation:natural:{"lost" if sb - sa else ""}{"gained" if sa - sb else ""}:'
                            f'{kinds_tag}',
                            {'only_failing_run': sorted(sa - sb)[:5], 'only_clean_skip': sorted(sb - sa)[:5],
                             'failed_units': failed[:6], 'unit_exceptions': excs}))
            t = a.tally
            if t is not None:
                got = dict(t.n_transcripts_failed)
                exp_lo, exp_hi = {}, {}
                for kind in ('variant', 'fusion', 'circRNA'):
                    us = [u for u in failed if u.startswith(kind + '|')]
                    exp_lo[kind] = len({u.split('|')[1] for u in us})
                    exp_hi[kind] = len(us)
                bad = {k: (got[k], exp_lo[k], exp_hi[k]) for k in got if not exp_lo[k] <= got[k] <= exp_hi[k]}
                if bad:
                    out.append(('tally', f'tally:natural:{"+".join(sorted(bad))}:{kinds_tag}',
                                {'tally_failed': got, 'expected_lo': exp_lo, 'expected_hi': exp_hi}))
    a2 = execute(case, wd, 'a2', threads, sched, False)
    info['executions'] += 1
    if not a2.wall_capped and a2.natural_failed and (a2.ok or a2.fasta_exists):
        out.append(('abort', f'abort:natural:{"completed" if a2.ok else "fasta-left"}:{kinds_tag}',
                    {'completed': a2.ok, 'fasta_exists': a2.fasta_exists,
                     'failed_without_flag': [k for k, _ in a2.natural_failed][:5]}))
    return out, info


def gen(seed, idx):
    rng = R.case_rng(seed, ENGINE, idx)
    cfg = cvcase.gen_config(rng)
    cfg['noncanonical_transcripts'] = rng.random() < 0.15
    if rng.random() < 0.2:
        case = cvcase.gen_corpus_case(rng, config=cfg)
    else:
        case = cvcase.gen_case(rng, config=cfg, mix=MIX)
    return case, rng


def unit_key(u):
    return f'{u[0]}|{u[1]}|{u[2]}'


def plan_faults(rng, units, gathered):
    """units: list of (kind, tx, uid, n_lines, n_pep) from F0."""
    style = rng.random()
    chosen = []
    if style < 0.05:
        chosen = list(units)
        tag = 'every_unit'
    elif style < 0.15:
        tx = rng.choice(sorted({u[1] for u in units}))
        chosen = [u for u in units if u[1] == tx]
        tag = 'all_units_of_tx'
    elif style < 0.40 and any(sum(1 for v in units if v[1] == u[1]) >= 3 for u in units):
        # a unit that is NOT the last of a transcript with several units: what it leaves behind meets later units
        rich = sorted({u[1] for u in units if sum(1 for v in units if v[1] == u[1]) >= 3})
        tx = rng.choice(rich)
        mine = [u for u in units if u[1] == tx]
        chosen = [rng.choice(mine[:-1])]
        tag = 'early_unit_of_rich_tx'
    else:
        n = min(len(units), rng.choice([1, 1, 1, 2, 2, 3]))
        chosen = rng.sample(units, n)
        tag = 'subset'
    faults = {}
    for u in chosen:
        if rng.random() < 0.4 or not u[3]:
            faults[unit_key(u)] = {'k': 0, 'exc': rng.choice(ENTRY_EXC)}
        else:
            r = rng.random()
            n = u[3]
            if r < 0.25:
                k = rng.randint(1, max(1, n // 20))
            elif r < 0.5:
                k = rng.randint(max(1, n - n // 20), n)
            else:
                k = rng.randint(1, n)
            faults[unit_key(u)] = {'k': k, 'exc': 'InjectedFault'}
    if rng.random() < 0.12:
        txs = [t for t, d in gathered if d]
        if txs:
            tx = rng.choice(txs)
            faults[f'gather|{tx}|{tx}'] = {'k': 0, 'exc': 'ValueError'}
            faults = {k: v for k, v in faults.items() if k.split('|')[1] != tx or k.startswith('gather|')}
    return faults, tag


UNIT_LINE_CAP = 25_000_000


def execute(case, wd, tag, threads, sched, skip_failed, faults=None, skip_units=None, count_units=False,
            cfg_over=None):
    ref, files, out = cvcase.materialise(case, cvcase.reference_layout(case), wd, tag)
    cfg = dict(case['config'], threads=threads, skip_failed=skip_failed, **(cfg_over or {}))
    return cvrun.run_callvariant(ref, files, out, cfg, sched, faults=faults, skip_units=skip_units,
                                 count_units=count_units, line_cap=UNIT_LINE_CAP if count_units else None)


def entries_by_seq(run):
    return {s: sorted(e) for s, e in run.fasta.items()}


def backbone(entry):
    return entry.split('|', 1)[0]


def judge(case, f0, a, b, a2, faults):
    """Returns list of (clause, signature, detail)."""
    out = []
    if a.wall_capped or b.wall_capped or (a2 is not None and a2.wall_capped):
        return [('_model_failed', '', {'exc': 'wall budget'})]
    fired = {f['unit'] for f in a.fault_fired}
    failing_kinds = sorted({u.split('|')[0] for u in fired})
    kinds_tag = '+'.join(failing_kinds)
    # 1. A completes
    if not a.ok:
        msg = (a.exc[1] or '')
        word = 'cgraph' if 'cgraph' in msg else ''
        out.append(('completes', f'completes:{a.exc[0]}:{word}:{kinds_tag}',
                    {'exc': a.exc, 'tb': (a.exc_tb or '')[-700:], 'fired': sorted(fired)}))
        return out
    if not b.ok:
        # the reference model itself failed: nothing to compare with (counted by caller)
        return [('_model_failed', '', {'exc': b.exc})]
    # 2. isolation
    sa, sb = set(a.fasta), set(b.fasta)
    if sa != sb:
        out.append(('isolation', f'isolation:{"lost" if sb - sa else ""}{"gained" if sa - sb else ""}:{kinds_tag}',
                    {'only_faulted': sorted(sa - sb)[:5], 'only_clean_skip': sorted(sb - sa)[:5],
                     'n_faulted': len(sa), 'n_clean_skip': len(sb), 'fired': sorted(fired)}))
    else:
        # which units a peptide is attributed to (backbone ids of its header entries and table rows).  The full
        # entry strings are NOT compared: which variant combinations are listed for a peptide depends on
        # set-iteration order (DESIGN 5-F), and a unit that fails half-way has already given serial hashes to shared
        # objects that the clean-skip run hashes later -- the thorough tier met one such case in 1526
        # (extra entry for the same backbone, same sequences); comparing entry strings was a false alarm
        ea = {s: sorted({backbone(e) for e in es}) for s, es in a.fasta.items()}
        eb = {s: sorted({backbone(e) for e in es}) for s, es in b.fasta.items()}
        diff = [s for s in ea if ea[s] != eb[s]]
        ta = sorted({(r[0], backbone(r[1])) for r in a.table if len(r) > 1})
        tb = sorted({(r[0], backbone(r[1])) for r in b.table if len(r) > 1})
        if diff or ta != tb:
            out.append(('isolation-headers', f'isolation-headers:{kinds_tag}',
                        {'n_seq_with_different_backbones': len(diff),
                         'example': [(s, ea[s], eb[s]) for s in diff[:2]],
                         'table_attribution_differs': ta != tb, 'fired': sorted(fired)}))
    # 3. sandwich
    # attribution is by what each unit RETURNED in the fault-free run, not by header backbones: a fusion unit also
    # returns donor-side peptides labelled with the plain transcript id (seen under --noncanonical-transcripts,
    # where the main unit does not run at all), so a header does not identify the producing unit
    gather_txs = {u.split('|')[1] for u in fired if u.startswith('gather|')}
    dead = {u for u in fired if not u.startswith('gather|')}
    dead |= {unit_key(u) for u in f0.units if u[1] in gather_txs}
    s0 = set(f0.fasta)
    must = set()
    for key, peps in f0.unit_peptides.items():
        if key not in dead:
            must.update(peps)
    must &= s0
    if not sa <= s0:
        out.append(('sandwich', f'sandwich:invented:{kinds_tag}',
                    {'invented': sorted(sa - s0)[:5], 'n': len(sa - s0), 'fired': sorted(fired)}))
    if not must <= sa:
        lost = sorted(must - sa)
        out.append(('sandwich', f'sandwich:lost-other-unit:{kinds_tag}',
                    {'lost': lost[:5], 'n': len(lost),
                     'entries': {s: f0.fasta[s] for s in lost[:3]}, 'fired': sorted(fired)}))
    # 4. tally
    t = a.tally
    if t is not None:
        exp_lo, exp_hi = {}, {}
        for kind in ('variant', 'fusion', 'circRNA'):
            us = [u for u in fired if u.startswith(kind + '|')]
            exp_lo[kind] = len({u.split('|')[1] for u in us})
            exp_hi[kind] = len(us)
        got = dict(t.n_transcripts_failed)
        bad = {k: (got[k], exp_lo[k], exp_hi[k]) for k in got if not exp_lo[k] <= got[k] <= exp_hi[k]}
        n_inv = len(gather_txs)
        if bad or t.n_transcripts_invalid != n_inv:
            out.append(('tally', f'tally:{"+".join(sorted(bad)) or "invalid"}:{kinds_tag}',
                        {'tally_failed': got, 'expected_lo': exp_lo, 'expected_hi': exp_hi,
                         'tally_invalid': t.n_transcripts_invalid, 'expected_invalid': n_inv,
                         'fired': sorted(fired)}))
    # 5. abort without the flag
    if a2 is not None:
        if a2.ok or a2.fasta_exists:
            out.append(('abort', f'abort:{"completed" if a2.ok else "fasta-left"}:{kinds_tag}',
                        {'completed': a2.ok, 'fasta_exists': a2.fasta_exists,
                         'fired_without_flag': [f['unit'] for f in a2.fault_fired]}))
    return out


def judge_timeout_once(case, wd, f0, tfaults, threads, sched, out=None):
    # same first ladder step as the fault-free run, then a drastic second step: the retry of the timed-out transcript
    # runs with max_variants_per_node=1, and a leak of the lowered limits into other transcripts costs them every
    # multi-variant peptide
    base = cvrun.DEFAULT_CONFIG if hasattr(cvrun, 'DEFAULT_CONFIG') else {}
    mv = list(case['config'].get('max_variants_per_node', base.get('max_variants_per_node', [7])))[:1] + [1]
    av = list(case['config'].get('additional_variants_per_misc', base.get('additional_variants_per_misc', [2])))[:1] + [0]
    t = execute(case, wd, 't', threads, sched, False, faults=tfaults,
                cfg_over={'max_variants_per_node': mv, 'additional_variants_per_misc': av})
    if out is not None:
        out['executions'] += 1
    if not t.fault_fired or t.wall_capped:
        return []
    if out is not None:
        out['probes']['timeout_once_fired'] = out['probes'].get('timeout_once_fired', 0) + 1
        out['faults']['variant:entry:TimeoutError:once'] = out['faults'].get('variant:entry:TimeoutError:once', 0) + 1
    if not t.ok:
        # (whether a single timeout must be survived is the retry ladder's business -- C02 -- not demanded here)
        return []
    if out is not None:
        out['probes']['timeout_once_absorbed_by_retry'] = out['probes'].get('timeout_once_absorbed_by_retry', 0) + 1
    tx = sorted(tfaults)[0].split('|')[1]
    s0, st = set(f0.fasta), set(t.fasta)
    must = set()
    for key, peps in f0.unit_peptides.items():
        if key.split('|')[1] != tx:
            must.update(peps)
    must &= s0
    res = []
    if not must <= st:
        lost = sorted(must - st)
        res.append(('sandwich', 'sandwich:lost-other-unit:timeout-retry',
                    {'lost': lost[:5], 'n': len(lost), 'entries': {s: f0.fasta[s] for s in lost[:3]},
                     'timed_out_once': sorted(tfaults)}))
    # (no 'invented' clause here: under the lowered limits the timed-out transcript may legitimately yield peptides
    # the full limits do not -- DESIGN 4-C02)
    return res


def run_plan(case, wd, faults, threads, sched, with_abort=True):
    f0 = execute(case, wd, 'f0', 1, {'salt': sched.get('salt', 0)}, False, count_units=True)
    if not f0.ok:
        return None, None, None, None, f0
    a = execute(case, wd, 'a', threads, sched, True, faults=faults)
    b = execute(case, wd, 'b', threads, sched, True, skip_units=set(faults))
    a2 = execute(case, wd, 'a2', threads, sched, False, faults=faults) if with_abort else None
    return f0, a, b, a2, None


def fault_signature(a, faults, threads):
    sig = []
    for f in a.fault_fired:
        kind = f['unit'].split('|')[0]
        sig.append((kind, 'entry' if f['k'] == 0 else 'mid', f['site'], f['exc']))
    return {'faults': sorted(sig), 'n': len(faults), 'threads': threads}


def run_case(seed, task, tier):
    if task.get('kind') == 'parser':
        return parser_rows.run_case(seed, task, tier, PROPERTY)
    if task.get('kind') == 'natural':
        return run_natural(seed, task, tier)
    idx = task['case']
    case, rng = gen(seed, idx)
    out = {'executions': 0, 'signatures': [], 'violations': [], 'probes': {}, 'faults': {}, 'steps': 0}
    probes = out['probes']
    threads = rng.choice([1, 1, 2, 3, 4])
    sched = {'pool_seed': rng.getrandbits(32), 'salt': rng.choice([0, rng.getrandbits(30) | 1])}
    with cvcase.Scratch('c07_') as wd:
        f0 = execute(case, wd, 'f0', 1, {'salt': sched['salt']}, False, count_units=True)
        out['executions'] += 1
        if not f0.ok or not f0.units or f0.step_capped or f0.wall_capped:
            out['invalid'] = True
            out['invalid_reason'] = 'step cap' if (f0.step_capped or f0.wall_capped) else (f0.exc or 'no units')
            if f0.step_capped or f0.wall_capped:
                probes['step_cap_discarded'] = 1
            return out
        out['steps'] += sum(u[3] or 0 for u in f0.units)
        if case['stats'].get('corpus'):
            probes['corpus_case'] = 1
        n_plans = 2 if tier == 'quick' else 3
        for pl in range(n_plans):
            prng = R.case_rng(seed, ENGINE, idx, f'plan{pl}')
            faults, tag = plan_faults(prng, f0.units, f0.gathered)
            a = execute(case, wd, 'a', threads, sched, True, faults=faults)
            out['executions'] += 1
            if a.fault_absorbed:
                out['absorbed'] = out.get('absorbed', 0) + 1
                probes['absorbed'] = probes.get('absorbed', 0) + 1
                continue
            if not a.fault_fired:
                continue
            b = execute(case, wd, 'b', threads, sched, True, skip_units=set(faults))
            a2 = execute(case, wd, 'a2', threads, sched, False, faults=faults)
            out['executions'] += 2
            if a2.fault_absorbed:
                a2 = None
            else:
                probes['abort_checked'] = probes.get('abort_checked', 0) + 1
            for f in a.fault_fired:
                kind = f['unit'].split('|')[0]
                fk = 'gather' if kind == 'gather' else ('entry' if f['k'] == 0 else 'mid_unit')
                out['faults'][f'{kind}:{fk}:{f["exc"]}'] = out['faults'].get(f'{kind}:{fk}:{f["exc"]}', 0) + 1
                probes['fault_' + fk] = probes.get('fault_' + fk, 0) + 1
                pk = {'variant': 'main_unit_failed', 'fusion': 'fusion_unit_failed',
                      'circRNA': 'circ_unit_failed'}.get(kind)
                if pk:
                    probes[pk] = probes.get(pk, 0) + 1
            if len(a.fault_fired) > 1:
                probes['multi_fault'] = probes.get('multi_fault', 0) + 1
            if tag != 'subset':
                probes[tag] = probes.get(tag, 0) + 1
            if threads > 1:
                probes['threads_gt_1'] = probes.get('threads_gt_1', 0) + 1
            # a unit of the same transcript executed after a failed one
            failed_tx = {f['unit'].split('|')[1] for f in a.fault_fired}
            if any(u[1] in failed_tx and u[4] != 'skipped' for u in a.units):
                probes['later_unit_after_failed_unit'] = probes.get('later_unit_after_failed_unit', 0) + 1
            out['signatures'].append(fault_signature(a, faults, threads))
            for clause, sig, detail in judge(case, f0, a, b, a2, faults):
                if clause == '_model_failed':
                    out['model_failed'] = out.get('model_failed', 0) + 1
                    continue
                rep = {'property': PROPERTY, 'engine': ENGINE, 'clause': clause, 'signature': sig,
                       'detail': detail, 'seed': seed, 'case': idx, 'hclass': task['hclass'],
                       'hashseed': driver.HASH_CLASSES[task['hclass']], 'case_data': case,
                       'faults': faults, 'threads': threads, 'sched': sched}
                rep['digest'] = R.digest([seed, idx, clause, faults])
                out['violations'].append(rep)
        # one-shot timeout without --skip-failed: the retry ladder of caller_reducer absorbs it (the transcript is called
        # again with lowered limits and may legitimately yield less); every OTHER transcript's peptides must be there
        trng = R.case_rng(seed, ENGINE, idx, 'timeout-once')
        mains = [u for u in f0.units if u[0] == 'variant']
        if mains:
            u = trng.choice(mains[:max(1, len(mains) // 2)])
            tfaults = {unit_key(u): {'k': 0, 'exc': 'TimeoutError', 'once': True}}
            for clause, sig, detail in judge_timeout_once(case, wd, f0, tfaults, threads, sched, out):
                rep = {'property': PROPERTY, 'engine': ENGINE, 'clause': clause, 'signature': sig,
                       'detail': detail, 'seed': seed, 'case': idx, 'hclass': task['hclass'],
                       'hashseed': driver.HASH_CLASSES[task['hclass']], 'case_data': case,
                       'faults': tfaults, 'threads': threads, 'sched': sched, 'timeout_once': True}
                rep['digest'] = R.digest([seed, idx, clause, tfaults])
                out['violations'].append(rep)
        out['sample'] = {'case': idx, 'stats': case['stats'], 'config': case['config'],
                         'units': [(u[0], u[1], u[2], u[3]) for u in f0.units][:12],
                         'last_fault_plan': faults, 'threads': threads, 'sched': sched}
    return out


def replay(rep):
    if rep.get('engine') == 'parser-rows':
        return parser_rows.replay(rep)
    case = rep['case_data']
    if rep.get('natural'):
        with cvcase.Scratch('c07nr_') as wd:
            res, _ = judge_natural(case, wd, rep['threads'], rep['sched'])
        return [dict(rep, clause=c, signature=s, detail=d) for c, s, d in (res or [])]
    if rep.get('timeout_once'):
        with cvcase.Scratch('c07t_') as wd:
            f0 = execute(case, wd, 'f0', 1, {'salt': rep['sched'].get('salt', 0)}, False, count_units=True)
            if not f0.ok:
                return []
            res = judge_timeout_once(case, wd, f0, rep['faults'], rep['threads'], rep['sched'])
        return [dict(rep, clause=c, signature=s, detail=d) for c, s, d in res]
    with cvcase.Scratch('c07r_') as wd:
        f0, a, b, a2, bad = run_plan(case, wd, rep['faults'], rep['threads'], rep['sched'])
        if bad is not None or a.fault_absorbed or not a.fault_fired:
            return []
        if a2 is not None and a2.fault_absorbed:
            a2 = None
        res = []
        for clause, sig, detail in judge(case, f0, a, b, a2, rep['faults']):
            if clause.startswith('_'):
                continue
            res.append(dict(rep, clause=clause, signature=sig, detail=detail))
        return res


def shrink_candidates(rep):
    if rep.get('engine') == 'parser-rows':
        yield from parser_rows.shrink_candidates(rep)
        return
    if rep.get('natural'):
        case = rep['case_data']
        for is_circ, key in ((False, 'var_lines'), (True, 'circ_lines')):
            for i in range(len(case[key]) - 1, -1, -1):
                new_case, _ = cvcase.drop_line(case, [], is_circ, i)
                yield dict(rep, case_data=new_case)
        if rep['threads'] > 1:
            yield dict(rep, threads=1)
        return
    case, faults = rep['case_data'], rep['faults']
    if len(faults) > 1:
        for k in list(faults):
            yield dict(rep, faults={q: v for q, v in faults.items() if q != k})
    for k, f in faults.items():
        if f['k'] > 0:
            yield dict(rep, faults=dict(faults, **{k: {'k': 0, 'exc': 'RuntimeError'}}))
    if rep['threads'] > 1:
        yield dict(rep, threads=1)
        if rep['threads'] > 2:
            yield dict(rep, threads=2)
    faulted_tx = {k.split('|')[1] for k in faults}
    for is_circ, key in ((False, 'var_lines'), (True, 'circ_lines')):
        for i in range(len(case[key]) - 1, -1, -1):
            new_case, _ = cvcase.drop_line(case, [], is_circ, i)
            yield dict(rep, case_data=new_case)
    for k, f in faults.items():
        if f['k'] > 1:
            yield dict(rep, faults=dict(faults, **{k: dict(f, k=f['k'] // 2)}))
    if rep['sched'].get('salt'):
        yield dict(rep, sched=dict(rep['sched'], salt=0))
    for flag in ('selenocysteine_termination', 'w2f_reassignment', 'coding_novel_orf', 'backsplicing_only',
                 'invalid_protein_as_noncoding', 'noncanonical_transcripts'):
        if case['config'].get(flag):
            yield dict(rep, case_data=dict(case, config=dict(case['config'], **{flag: False})))
