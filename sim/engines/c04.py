"""Engine c04-monitor (C04): the output-hygiene invariants, evaluated on every completed execution of a mix of
simulated runs: schedule/layout perturbations (cv-sched), unit faults under --skip-failed (cv-fault), virtual
timeouts with retries (cv-timeout), and one-shot callNovelORF / callAltTranslation runs.
"""
import argparse
import contextlib
import io
import sys
from pathlib import Path

from sim import rng as R
from sim import cvcase, cvrun, c04mon, driver
from sim.engines import cv_sched, cv_fault, cv_timeout

# pylint: disable=wrong-import-position
import moPepGen.cli.call_novel_orf  # noqa
import moPepGen.cli.call_alt_translation  # noqa

cno = sys.modules['moPepGen.cli.call_novel_orf']
cat = sys.modules['moPepGen.cli.call_alt_translation']

PROPERTY = 'C04'
ENGINE = 'c04-monitor'
BUDGET_S = {'quick': 170, 'thorough': 1500}
CASE_TIMEOUT_S = 1200
STUBS = cv_sched.STUBS
PROBES = ['kind_sched', 'kind_fault', 'kind_timeout', 'kind_oneshot', 'callNovelORF_nonempty',
          'callAltTranslation_nonempty', 'threads_gt_1', 'faulted_execution', 'retried_execution',
          'index_dir_pool', 'peptides_checked', 'table_rows_checked', 'min_mw_gt_500', 'length_limits_nondefault',
          'oneshot_corpus_reference', 'paralog_reference', 'candidate_canonical_filtered']
RULE = ('every completed execution of: (sched) reference + perturbed callVariant executions of engine cv-sched; '
        '(fault) execution with injected unit failures under --skip-failed; (timeout) execution with virtual alarms '
        'and retries; (oneshot) callNovelORF and callAltTranslation on the generated reference with random flags. '
        'distinct = distinct (command, cleavage rule/miscleavage, threads, perturbation kind, flags) signatures '
        'of executions that wrote at least one peptide')
ASSUMPTIONS = [
    'the canonical pool is what the run itself loads for its cleavage settings (common.load_references with the '
    'same arguments, index directory or raw files)',
    'the workload is the simulator workload, not a generator aimed at boundary lengths or masses',
]


def n_cases(tier):
    return 72 if tier == 'quick' else 4000


def tasks(seed, tier, n):
    kinds = ['sched', 'fault', 'oneshot', 'sched', 'timeout', 'oneshot', 'fault', 'oneshot']
    return [{'case': i, 'mode': 'main', 'kind': kinds[i % len(kinds)], 'hclass': i % 4} for i in range(n)]


def aim_at_limits(seed, idx, case):
    """C04 is about limits: draw mass / length limits that actually bind (the defaults 500 Da / 7 aa hardly
    ever do), per case, from the case PRNG."""
    rng = R.case_rng(seed, ENGINE, idx, 'limits')
    cfg = dict(case['config'])
    cfg['min_mw'] = rng.choice([500., 500., 800., 1000., 1200., 1500.])
    cfg['min_length'] = rng.choice([5, 6, 7, 7, 9])
    cfg['max_length'] = rng.choice([12, 18, 25, 25, 40])
    return dict(case, config=cfg)


def pool_for(ref, files, out, cfg, cache):
    key = (ref.get('index_dir') or ref['gtf'], R.digest({k: cfg.get(k) for k in (
        'cleavage_rule', 'cleavage_exception', 'miscleavage', 'min_mw', 'min_length', 'max_length',
        'invalid_protein_as_noncoding')}))
    if key not in cache:
        args = cvrun.make_args(ref, files, out, cfg)
        cache[key] = c04mon.load_pool(args)
    return cache[key]


def check_run(out, task, seed, case, run, ref, files, outp, cfg, what, cache, replay_info):
    """Monitor one completed callVariant execution."""
    if not run.ok:
        return
    pool = pool_for(ref, files, outp, cfg, cache)
    c = dict(cvrun.DEFAULT_CONFIG)
    c.update(cfg)
    bad = c04mon.check_callvariant(run, pool, c)
    out['executions'] += 1
    if case['stats'].get('paralog_mirror_snvs'):
        out['probes']['paralog_reference'] = out['probes'].get('paralog_reference', 0) + 1
    # reach of the canonical clause: how many peptides the units returned that ARE canonical (and had to be filtered)
    returned = set()
    for v in run.unit_peptides.values():
        returned.update(v)
    pool_il = pool | {x.replace('I', 'L') for x in pool}
    n_can = sum(1 for x in returned if x in pool_il)
    if n_can:
        out['probes']['candidate_canonical_filtered'] = out['probes'].get('candidate_canonical_filtered', 0) + n_can
    if float(c['min_mw']) > 500:
        out['probes']['min_mw_gt_500'] = out['probes'].get('min_mw_gt_500', 0) + 1
    if c['min_length'] < 7 or c['max_length'] < 25:
        out['probes']['length_limits_nondefault'] = out['probes'].get('length_limits_nondefault', 0) + 1
    out['probes']['peptides_checked'] = out['probes'].get('peptides_checked', 0) + len(run.fasta)
    out['probes']['table_rows_checked'] = out['probes'].get('table_rows_checked', 0) + len(run.table)
    if ref.get('index_dir'):
        out['probes']['index_dir_pool'] = out['probes'].get('index_dir_pool', 0) + 1
    if run.fasta:
        out['signatures'].append({'cmd': 'callVariant', 'rule': c['cleavage_rule'], 'misc': c['miscleavage'],
                                  'threads': c.get('threads', 1), 'kind': what,
                                  'flags': [int(bool(c[k])) for k in ('selenocysteine_termination', 'w2f_reassignment',
                                                                       'coding_novel_orf', 'noncanonical_transcripts',
                                                                       'backsplicing_only')]})
    if bad:
        kinds = sorted({b[0] for b in bad})
        rep = {'property': PROPERTY, 'engine': ENGINE, 'clause': kinds[0], 'signature': f'{kinds[0]}:callVariant:{what}',
               'detail': {'violations': [list(b) for b in bad[:6]], 'all_kinds': kinds, 'what': what},
               'seed': seed, 'case': task['case'], 'hclass': task['hclass'],
               'hashseed': driver.HASH_CLASSES[task['hclass']], 'kind': task['kind'], 'case_data': case,
               'replay_info': replay_info}
        rep['digest'] = R.digest([seed, task['case'], kinds[0], what, replay_info])
        out['violations'].append(rep)


def run_sched(seed, task, out, only=None):
    case, perts = cv_sched.gen(seed, task['case'])
    case = aim_at_limits(seed, task['case'], case)
    cache = {}
    with cvcase.Scratch('c04s_') as wd:
        plans = [('ref', {'layout': cvcase.reference_layout(case), 'threads': 1, 'sched': cv_sched.REF_SCHED})]
        plans += [(f'pert{k}', p) for k, p in enumerate(perts[:3])]
        for name, p in plans:
            if only is not None and name != only:
                continue
            try:
                ref, files, outp = cvcase.materialise(case, p['layout'], wd, 'x')
            except cvcase.LayoutFailure:
                continue
            cfg = dict(case['config'], threads=p['threads'])
            run = cvrun.run_callvariant(ref, files, outp, cfg, p['sched'])
            if p['threads'] > 1 and run.ok:
                out['probes']['threads_gt_1'] = out['probes'].get('threads_gt_1', 0) + 1
            check_run(out, task, seed, case, run, ref, files, outp, cfg, 'sched', cache, {'exec': name})
    return case


def run_fault(seed, task, out):
    case, rng = cv_fault.gen(seed, task['case'])
    case = aim_at_limits(seed, task['case'], case)
    threads = rng.choice([1, 2, 3])
    sched = {'pool_seed': rng.getrandbits(32), 'salt': rng.choice([0, rng.getrandbits(30) | 1])}
    cache = {}
    with cvcase.Scratch('c04f_') as wd:
        f0 = cv_fault.execute(case, wd, 'f0', 1, {'salt': sched['salt']}, False, count_units=True)
        if not f0.ok or not f0.units:
            out['invalid'] = True
            return case
        prng = R.case_rng(seed, ENGINE, task['case'], 'plan')
        faults, _ = cv_fault.plan_faults(prng, f0.units, f0.gathered)
        ref, files, outp = cvcase.materialise(case, cvcase.reference_layout(case), wd, 'a')
        cfg = dict(case['config'], threads=threads, skip_failed=True)
        run = cvrun.run_callvariant(ref, files, outp, cfg, sched, faults=faults)
        if run.fault_fired and run.ok:
            out['probes']['faulted_execution'] = out['probes'].get('faulted_execution', 0) + 1
            for f in run.fault_fired:
                out['faults']['unit_fault'] = out['faults'].get('unit_fault', 0) + 1
        check_run(out, task, seed, case, run, ref, files, outp, cfg, 'fault', cache,
                  {'faults': faults, 'threads': threads, 'sched': sched})
    return case


def run_timeout(seed, task, out):
    case, rng = cv_timeout.gen(seed, task['case'])
    case = aim_at_limits(seed, task['case'], case)
    threads = rng.choice([1, 2])
    sched = {'pool_seed': rng.getrandbits(32), 'salt': 0}
    cache = {}
    with cvcase.Scratch('c04t_') as wd:
        m = cv_timeout.execute(case, wd, 'm', 1, {'salt': 0}, count_attempts=True,
                               line_cap=cv_timeout.LINE_CAP['quick'])
        if not m.ok:
            out['invalid'] = True
            return case
        prng = R.case_rng(seed, ENGINE, task['case'], 'plan')
        plan = cv_timeout.plan_alarms(prng, m, len(case['config']['max_variants_per_node']))
        ref, files, outp = cvcase.materialise(case, cvcase.reference_layout(case), wd, 't')
        cfg = dict(case['config'], threads=threads)
        run = cvrun.run_callvariant(ref, files, outp, cfg, sched, alarm_plan=plan)
        if run.alarm_fired and run.ok:
            out['probes']['retried_execution'] = out['probes'].get('retried_execution', 0) + 1
            out['faults']['virtual_alarm'] = out['faults'].get('virtual_alarm', 0) + len(run.alarm_fired)
            out['sim_seconds'] = out.get('sim_seconds', 0) + run.sim_seconds
        check_run(out, task, seed, case, run, ref, files, outp, cfg, 'timeout', cache,
                  {'plan': plan, 'threads': threads, 'sched': sched})
    return case


def oneshot_cmd(cmd, ref, outp, cfg, flags):
    base = dict(index_dir=Path(ref['index_dir']) if ref.get('index_dir') else None,
                genome_fasta=Path(ref['genome_fa']) if not ref.get('index_dir') else None,
                annotation_gtf=Path(ref['gtf']) if not ref.get('index_dir') else None,
                proteome_fasta=Path(ref['proteome_fa']) if not ref.get('index_dir') else None,
                reference_source='GENCODE', output_path=Path(outp), cleavage_rule=cfg['cleavage_rule'],
                cleavage_exception=cfg['cleavage_exception'], miscleavage=str(cfg['miscleavage']),
                min_mw=str(cfg['min_mw']), min_length=cfg['min_length'], max_length=cfg['max_length'],
                quiet=True, debug_level=1, invalid_protein_as_noncoding=False)
    if cmd == 'callNovelORF':
        args = argparse.Namespace(command=cmd, output_orf=None, coding_novel_orf=flags['coding_novel_orf'],
                                  inclusion_biotypes=None, exclusion_biotypes=None, min_tx_length=21,
                                  orf_assignment=flags['orf_assignment'], w2f_reassignment=flags['w2f'], **base)
        fn = cno.call_novel_orf_peptide
    else:
        args = argparse.Namespace(command=cmd, selenocysteine_termination=flags['sect'],
                                  w2f_reassignment=flags['w2f'], **base)
        fn = cat.call_alt_translation
    try:
        with contextlib.redirect_stdout(io.StringIO()), contextlib.redirect_stderr(io.StringIO()):
            fn(args)
        return args, None
    except SystemExit as e:
        return args, ('SystemExit', str(e.code))
    except Exception as e:  # pylint: disable=broad-except
        return args, (type(e).__name__, str(e)[:200])


def run_oneshot(seed, task, out, only=None):
    rng = R.case_rng(seed, ENGINE, task['case'], 'oneshot')
    if rng.random() < 0.3:
        case = cvcase.gen_corpus_case(rng)       # real reference (GENCODE attributes present)
        out['probes']['oneshot_corpus_reference'] = 1
    else:
        case = cvcase.gen_case(rng, n_records=1, paralog=rng.random() < 0.5)
    # callNovelORF reads transcript.biotype: moPepGen.fake writes no gene_type attribute, so add one
    coding = {l[1:].split('|')[1] for l in case['texts']['proteome_fa'].splitlines() if l.startswith('>')}
    gtf_lines = []
    for line in case['texts']['gtf'].splitlines():
        if line and not line.startswith('#') and 'gene_type' not in line:
            tx = None
            for f in line.split('\t')[8].split(';'):
                f = f.strip()
                if f.startswith('transcript_id '):
                    tx = f.split(' ', 1)[1].strip('"')
            line = line.rstrip().rstrip(';') + f'; gene_type {"protein_coding" if tx in coding else "lncRNA"};'
        gtf_lines.append(line)
    case = dict(case, texts=dict(case['texts'], gtf='\n'.join(gtf_lines) + '\n'))
    case = aim_at_limits(seed, task['case'], case)
    cfg = dict(cvrun.DEFAULT_CONFIG)
    cfg.update(case['config'])
    use_index = rng.random() < 0.3
    flag_sets = []
    for cmd in ('callNovelORF', 'callAltTranslation'):
        if cmd == 'callNovelORF':
            flags = {'coding_novel_orf': rng.random() < 0.5, 'orf_assignment': rng.choice(['max', 'min']),
                     'w2f': rng.random() < 0.5}
        else:
            flags = rng.choice([{'sect': True, 'w2f': False}, {'sect': False, 'w2f': True},
                                {'sect': True, 'w2f': True}])
        flag_sets.append((cmd, flags))
    with cvcase.Scratch('c04o_') as wd:
        lay = dict(cvcase.reference_layout(case), index_dir=use_index)
        try:
            ref, files, _ = cvcase.materialise(case, lay, wd, 'x')
        except cvcase.LayoutFailure:
            out['invalid'] = True
            return case
        # every command is run under the case's limits and under a second draw of binding limits
        rng2 = R.case_rng(seed, ENGINE, task['case'], 'limits2')
        cfg2 = dict(cfg, min_mw=rng2.choice([650., 800., 900., 1000., 1100., 1300.]),
                    min_length=rng2.choice([5, 6, 7, 8]), max_length=rng2.choice([10, 14, 20, 30]))
        for cmd, flags, cfg in [(c, f, k) for c, f in flag_sets for k in (cfg, cfg2)]:
            if only is not None and cmd != only:
                continue
            outp = Path(wd) / f'{cmd}.fasta'
            if outp.exists():
                outp.unlink()
            args, exc = oneshot_cmd(cmd, ref, outp, cfg, flags)
            if exc is not None:
                out.setdefault('oneshot_errors', []).append((cmd, exc))
                continue
            out['executions'] += 1
            pool = c04mon.load_pool(args)
            if not outp.exists():
                continue
            fasta, dups = cvrun.parse_fasta(outp)
            if fasta:
                out['probes'][cmd + '_nonempty'] = out['probes'].get(cmd + '_nonempty', 0) + 1
                out['signatures'].append({'cmd': cmd, 'rule': cfg['cleavage_rule'], 'misc': cfg['miscleavage'],
                                          'flags': sorted(flags.items()), 'index': use_index})
            out['probes']['peptides_checked'] = out['probes'].get('peptides_checked', 0) + len(fasta)
            if use_index:
                out['probes']['index_dir_pool'] = out['probes'].get('index_dir_pool', 0) + 1
            bad = c04mon.check_sequences(fasta.keys(), pool, cfg['min_length'], cfg['max_length'],
                                         float(cfg['min_mw']))
            bad += [('duplicate_sequence', s) for s in dups]
            if bad:
                kinds = sorted({b[0] for b in bad})
                rep = {'property': PROPERTY, 'engine': ENGINE, 'clause': kinds[0],
                       'signature': f'{kinds[0]}:{cmd}', 'detail': {'violations': [list(b) for b in bad[:6]],
                                                                     'flags': flags, 'index_dir': use_index},
                       'seed': seed, 'case': task['case'], 'hclass': task['hclass'],
                       'hashseed': driver.HASH_CLASSES[task['hclass']], 'kind': 'oneshot', 'case_data': case,
                       'replay_info': {'cmd': cmd, 'limits': [cfg['min_mw'], cfg['min_length'], cfg['max_length']]}}
                rep['digest'] = R.digest([seed, task['case'], kinds[0], cmd])
                out['violations'].append(rep)
    return case


def run_case(seed, task, tier):
    out = {'executions': 0, 'signatures': [], 'violations': [], 'probes': {}, 'faults': {}}
    kind = task['kind']
    out['probes']['kind_' + kind] = 1
    case = {'sched': run_sched, 'fault': run_fault, 'timeout': run_timeout, 'oneshot': run_oneshot}[kind](
        seed, task, out)
    out['sample'] = {'case': task['case'], 'kind': kind, 'config': case['config'], 'stats': case['stats']}
    return out


def replay(rep):
    """Replays regenerate the case from (seed, case index, kind): the case data are stored for the reader, the
    execution is re-derived deterministically from the seed."""
    task = {'case': rep['case'], 'kind': rep['kind'], 'hclass': rep['hclass'], 'mode': 'main'}
    out = {'executions': 0, 'signatures': [], 'violations': [], 'probes': {}, 'faults': {}}
    {'sched': run_sched, 'fault': run_fault, 'timeout': run_timeout, 'oneshot': run_oneshot}[rep['kind']](
        rep['seed'], task, out)
    return [v for v in out['violations'] if v['clause'] == rep['clause']] or out['violations']
