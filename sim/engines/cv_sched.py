"""Engine cv-sched (C06): the peptide-sequence set is independent of threads / batch composition, file
layout, .idx, index directory, cache sizes, identity-hash order and PYTHONHASHSEED.

Fault-free configuration: no alarms, no injected exceptions.
"""
import json
import os
import subprocess
import sys
from pathlib import Path

from sim import rng as R
from sim import cvcase, cvrun, driver

PROPERTY = 'C06'
ENGINE = 'cv-sched'
BUDGET_S = {'quick': 150, 'thorough': 1500}
CASE_TIMEOUT_S = 1200
STUBS = ['pathos ParallelPool -> SimPool (pickle isolation, PRNG order, worker exception -> None)',
         'cli.common.signal -> FakeSignal (fires only in the threads-under-timeout executions)']
PROBES = ['corpus_case', 'batch_with_skipped_tx', 'last_batch_partial', 'threads_gt_1', 'multi_file', 'idx_used',
          'non_ascii_gvf_with_idx', 'index_dir_used', 'foreign_index_refused', 'index_dir_updated_pool', 'cache_evicting', 'tx_with_fusion_and_circ', 'noncanonical_only',
          'ref_nonempty', 'shadow_hashseed_compared', 'real_pool_calibrated', 'threads_under_timeout']
RULE = ('case = generated reference (3-9 genes; a fifth with a paralog copy of every gene on a second chromos'
        'ome) or a corpus reference from the repository tests, + SNV/INDEL/fusion (incl. sibling fusions from'
        ' one donor breakpoint)/circRNA/alt-splicing records, adjacent SNV pairs inside circRNA/fusion region'
        's; one reference execution (threads=1, one GVF per kind, no idx, raw reference) and 3-5 perturbed ex'
        'ecutions drawing threads 1..8 through SimPool, a random partition/order of records into files, idx s'
        'ubset, non-ASCII GVF headers, index directory (own / generated for other parameters / updated), cach'
        'e sizes, order-seam salt; every second case re-runs the reference execution under another PYTHONHASH'
        'SEED; a third of the cases additionally run one virtual-alarm plan under --threads 1 and --threads k'
        '; one case per quick run is executed through the real pathos pool.  distinct = distinct (threads, ba'
        'tch sizes, skipped-transcript positions, #files, idx mask, index_dir kind, salt!=0, cache<n_tx) sign'
        'atures of perturbed executions with a non-empty reference set')
ASSUMPTIONS = [
    'SimPool reproduces pathos.ParallelPool.map semantics (submit all, results in submission order, worker '
    'exception -> None); real OS scheduling is not modelled (a map call is a barrier in both)',
    'compat layer L0 restores the Biopython constructor contract the repository was written against',
    'workload = moPepGen.fake references (3/4 of the cases) and corpus references copied from the repository\'s '
    'integration tests (1/4: demo reference with multi-isoform gene, 32 downsampled real references)',
]


def n_cases(tier):
    return 48 if tier == 'quick' else 4000


def tasks(seed, tier, n):
    ts = []
    for i in range(n):
        ts.append({'case': i, 'mode': 'main', 'hclass': i % 4})
        if i % 2 == 1:
            ts.append({'case': i, 'mode': 'shadow', 'hclass': (i + 1 + (i // 4) % 3) % 4})
    # stub calibration against the real pathos pool (informational, DESIGN 3.2): 1 input on every quick run,
    # 4 on a thorough run
    # schedule independence under one and the same fault sequence: a third of the cases is additionally run with a
    # virtual-alarm plan (engine cv-timeout's generator) under --threads 1 and --threads k
    for i in range(n):
        if i % 3 == 0:
            ts.append({'case': i, 'mode': 'tthreads', 'hclass': i % 4})
    calib = [{'case': j * 5 + 2, 'mode': 'calib', 'hclass': j % 4} for j in range(1 if tier == 'quick' else 4)]
    return calib + ts


def gen(seed, idx):
    rng = R.case_rng(seed, ENGINE, idx)
    case = cvcase.gen_corpus_case(rng) if rng.random() < 0.25 else cvcase.gen_case(rng)
    n_pert = rng.randint(3, 5)
    perts = []
    n_tx = case['stats']['n_tx']
    for k in range(n_pert):
        prng = R.case_rng(seed, ENGINE, idx, f'pert{k}')
        lay = cvcase.random_layout(prng, case)
        perts.append({
            'layout': lay,
            'threads': prng.choice([1, 2, 2, 3, 3, 4, 5, 6, 8]),
            'sched': {'pool_seed': prng.getrandbits(32), 'salt': prng.choice([0, prng.getrandbits(30) | 1]),
                      'gene_cache': prng.choice([10, prng.randint(1, 12)]),
                      'tx_cache': prng.choice([10, prng.randint(1, 12)])},
        })
    return case, perts


def execute(case, workdir, tag, layout, threads, sched):
    try:
        ref, files, out = cvcase.materialise(case, layout, workdir, tag)
    except cvcase.LayoutFailure as e:
        run = cvrun.Run()
        run.exc = (f'LayoutFailure:{e.stage}:{e.exc_name}', str(e))
        run.index_note = None
        return run
    cfg = dict(case['config'], threads=threads)
    run = cvrun.run_callvariant(ref, files, out, cfg, sched)
    run.index_note = ref.get('index_note')
    return run


def seqset(run):
    return sorted(run.fasta.keys())


def signature(case, p, run):
    skipped = [i for i, (_, d) in enumerate(run.gathered) if not d]
    n_tx = case['stats']['n_tx']
    return {'threads': p['threads'], 'batches': [b['size'] for b in run.batches], 'skipped': skipped,
            'files': len(p['layout']['files']), 'idx': [int(bool(f.get('idx'))) for f in p['layout']['files']],
            'index_dir': str(p['layout'].get('index_dir') or False), 'salt': bool(p['sched'].get('salt')),
            'evicting': p['sched'].get('tx_cache', 10) < n_tx}


def compare(ref_run, run, layout=None):
    """Returns None if equal else a detail dict."""
    if getattr(run, 'wall_capped', False):
        return None                  # execution over the harness wall budget: discarded, never judged
    if layout is not None and (layout.get('index_dir') == 'foreign'
                               or getattr(run, 'index_note', None) == 'update-failed'):
        # the directory holds no pool for the run's parameters.  Refusing it is the documented behaviour (C12);
        # for C06 the only demand is that a run that does complete writes the same peptide set as the raw files
        if run.ok:
            a, b = set(ref_run.fasta), set(run.fasta)
            if a == b:
                return None
            return {'foreign_index_used': True, 'n_ref': len(a), 'n_pert': len(b), 'lost': sorted(a - b)[:5],
                    'gained': sorted(b - a)[:5], 'n_lost': len(a - b), 'n_gained': len(b - a)}
        return None
    if not run.ok:
        return {'perturbed_raised': run.exc, 'tb': (run.exc_tb or '')[-800:]}
    a, b = set(ref_run.fasta), set(run.fasta)
    if a != b:
        return {'n_ref': len(a), 'n_pert': len(b), 'lost': sorted(a - b)[:5], 'gained': sorted(b - a)[:5],
                'n_lost': len(a - b), 'n_gained': len(b - a)}
    return None


DIMS = ('threads', 'layout', 'idx', 'index-dir', 'cache', 'order')


def single_dim(case, p, dim):
    """A perturbation that differs from the reference execution in one dimension only."""
    base_lay = cvcase.reference_layout(case)
    q = {'layout': base_lay, 'threads': 1, 'sched': {'pool_seed': p['sched'].get('pool_seed', 0)}}
    if dim == 'threads':
        q['threads'] = p['threads']
    elif dim == 'layout':
        q['layout'] = {'files': [dict(f, idx=False) for f in p['layout']['files']], 'index_dir': False}
    elif dim == 'idx':
        q['layout'] = {'files': [dict(f, idx=True) for f in base_lay['files']], 'index_dir': False}
    elif dim == 'index-dir':
        q['layout'] = dict(base_lay, index_dir=p['layout'].get('index_dir'))
    elif dim == 'cache':
        q['sched'] = dict(q['sched'], gene_cache=p['sched'].get('gene_cache', 10),
                          tx_cache=p['sched'].get('tx_cache', 10))
    elif dim == 'order':
        q['sched'] = dict(q['sched'], salt=p['sched'].get('salt', 0))
    return q


def differs(case, p, dim):
    if dim == 'threads':
        return p['threads'] != 1
    if dim == 'layout':
        return p['layout']['files'] != cvcase.reference_layout(case)['files']
    if dim == 'idx':
        return any(f.get('idx') for f in p['layout']['files'])
    if dim == 'index-dir':
        return bool(p['layout'].get('index_dir'))
    if dim == 'cache':
        return p['sched'].get('gene_cache', 10) != 10 or p['sched'].get('tx_cache', 10) != 10
    if dim == 'order':
        return bool(p['sched'].get('salt'))
    return False


def attribute(case, workdir, ref_run, p):
    for dim in DIMS:
        if not differs(case, p, dim):
            continue
        q = single_dim(case, p, dim)
        run = execute(case, workdir, 'attr', q['layout'], q['threads'], q['sched'])
        d = compare(ref_run, run, q['layout'])
        if d is not None:
            return dim, q, d
    return 'combined', p, None


def viol_signature(clause, detail):
    if 'perturbed_raised' in detail:
        return f"{clause}:raised:{detail['perturbed_raised'][0]}"
    if detail.get('foreign_index_used'):
        return f'{clause}:foreign-index-used'
    kind = 'lost' if detail['n_lost'] and not detail['n_gained'] else \
        'gained' if detail['n_gained'] and not detail['n_lost'] else 'both'
    return f'{clause}:{kind}'


def make_violation(seed, task, case, p, clause, detail):
    rep = {
        'property': PROPERTY, 'engine': ENGINE, 'clause': clause,
        'signature': viol_signature(clause, detail), 'detail': detail,
        'seed': seed, 'case': task['case'], 'hclass': task['hclass'],
        'hashseed': driver.HASH_CLASSES[task['hclass']],
        'case_data': case, 'pert': p,
    }
    rep['digest'] = R.digest([seed, task['case'], clause, p])
    return rep


REF_SCHED = {'pool_seed': 0, 'salt': 0}


def timeout_threads(case, wd, plan, threads, sched):
    """The same alarm plan under --threads 1 and --threads k.  Returns (detail or None, info)."""
    from sim.engines import cv_timeout
    t1 = cv_timeout.execute(case, wd, 't1', 1, {'salt': sched.get('salt', 0), 'pool_seed': 0}, alarm_plan=plan)
    tk = cv_timeout.execute(case, wd, 'tk', threads, sched, alarm_plan=plan)
    info = {'fired_1': len(t1.alarm_fired), 'fired_k': len(tk.alarm_fired), 'ok': (t1.ok, tk.ok)}
    if t1.wall_capped or tk.wall_capped or not t1.alarm_fired:
        return None, info
    if t1.ok != tk.ok:
        # one completes, the other aborts (ladder exhausted in one schedule only)
        return {'perturbed_raised': tk.exc or t1.exc, 'ok_threads1': t1.ok, 'ok_threadsk': tk.ok,
                'tb': ((tk.exc_tb or t1.exc_tb) or '')[-600:]}, info
    if not t1.ok:
        return None, info
    a, b = set(t1.fasta), set(tk.fasta)
    if a != b:
        return {'n_ref': len(a), 'n_pert': len(b), 'lost': sorted(a - b)[:5], 'gained': sorted(b - a)[:5],
                'n_lost': len(a - b), 'n_gained': len(b - a),
                'fired': [(f['tx'], f['attempt'], f['site']) for f in t1.alarm_fired]}, info
    return None, info


def run_tthreads(seed, task, tier):
    from sim.engines import cv_timeout
    idx = task['case']
    case, rng = cv_timeout.gen(seed, idx)
    case['config']['skip_failed'] = False
    out = {'executions': 0, 'signatures': [], 'violations': [], 'probes': {}, 'faults': {}}
    threads = rng.choice([2, 3, 4])
    sched = {'pool_seed': rng.getrandbits(32), 'salt': 0}
    with cvcase.Scratch('c06t_') as wd:
        m = cv_timeout.execute(case, wd, 'm', 1, {'salt': 0}, count_attempts=True,
                               line_cap=cv_timeout.LINE_CAP['quick'])
        out['executions'] += 1
        if m.step_capped or not m.ok or not m.attempt_lines:
            out['invalid'] = True
            return out
        for pl in range(3):
            prng = R.case_rng(seed, ENGINE, idx, f'tplan{pl}')
            plan = cv_timeout.plan_alarms(prng, m, len(case['config']['max_variants_per_node']))
            d, info = timeout_threads(case, wd, plan, threads, sched)
            out['executions'] += 2
            if info['fired_1']:
                out['probes']['threads_under_timeout'] = out['probes'].get('threads_under_timeout', 0) + 1
                out['faults']['virtual_alarm'] = out['faults'].get('virtual_alarm', 0) + info['fired_1']
            if d is not None:
                rep = {'property': PROPERTY, 'engine': ENGINE, 'clause': 'threads-under-timeout',
                       'signature': viol_signature('threads-under-timeout', d), 'detail': d, 'seed': seed,
                       'case': idx, 'hclass': task['hclass'], 'hashseed': driver.HASH_CLASSES[task['hclass']],
                       'case_data': case, 'plan': plan, 'threads': threads, 'sched': sched}
                rep['digest'] = R.digest([seed, idx, 'tthreads', plan])
                out['violations'].append(rep)
    return out


def run_case(seed, task, tier):
    if task['mode'] == 'tthreads':
        return run_tthreads(seed, task, tier)
    idx = task['case']
    case, perts = gen(seed, idx)
    out = {'executions': 0, 'signatures': [], 'violations': [], 'probes': {}, 'faults': {}}
    probes = out['probes']
    with cvcase.Scratch('c06_') as wd:
        ref_run = execute(case, wd, 'ref', cvcase.reference_layout(case), 1, REF_SCHED)
        out['executions'] += 1
        if not ref_run.ok:
            out['invalid'] = True
            out['invalid_reason'] = ref_run.exc
            return out
        seqs = seqset(ref_run)
        out['ref_digest'] = R.digest(seqs)
        out['ref_n'] = len(seqs)
        if task['mode'] == 'shadow':
            out['ref_seqs'] = seqs
            return out
        if task['mode'] == 'calib':
            from sim import realpool
            threads = 3
            off = 0
            cwd = wd
            while len(seqs) < 5 and off < 8:
                # calibrate on an input that produces peptides and has several transcripts to batch
                off += 1
                case, _ = gen(seed, 100000 + idx * 10 + off)
                if case['stats'].get('corpus'):
                    continue
                cwd = Path(wd) / f'alt{off}'
                r2 = execute(case, cwd, 'ref', cvcase.reference_layout(case), 1, REF_SCHED)
                out['executions'] += 1
                seqs = seqset(r2) if r2.ok else []
            sim_run = execute(case, cwd, 'sim', cvcase.reference_layout(case), threads, {'pool_seed': 1, 'salt': 0})
            real = realpool.run_real(case, threads)
            out['executions'] += 2
            cal = {'case': idx, 'threads': threads, 'n_reference_threads1': len(seqs),
                   'simpool_ok': sim_run.ok, 'real_pool_ok': real.get('ok'), 'real_pool_error': real.get('error')}
            if sim_run.ok and real.get('ok'):
                a, b = set(seqset(sim_run)), set(real['seqs'])
                cal.update(n_simpool=len(a), n_real_pool=len(b), equal=(a == b),
                           only_simpool=sorted(a - b)[:5], only_real_pool=sorted(b - a)[:5])
            out['calibration'] = cal
            return out
        if seqs:
            probes['ref_nonempty'] = 1
        if case['stats'].get('corpus'):
            probes['corpus_case'] = 1
        kinds_per_tx = {}
        for kind, tx, uid, _, _ in ref_run.units:
            kinds_per_tx.setdefault(tx, set()).add(kind)
        if any({'fusion', 'circRNA'} <= k for k in kinds_per_tx.values()):
            probes['tx_with_fusion_and_circ'] = 1
        if case['config']['noncanonical_transcripts']:
            probes['noncanonical_only'] = 1
        for p in perts:
            run = execute(case, wd, 'pert', p['layout'], p['threads'], p['sched'])
            out['executions'] += 1
            sig = signature(case, p, run)
            if seqs:
                out['signatures'].append(sig)
            if p['threads'] > 1:
                probes['threads_gt_1'] = probes.get('threads_gt_1', 0) + 1
                if sig['skipped'] and run.batches:
                    probes['batch_with_skipped_tx'] = probes.get('batch_with_skipped_tx', 0) + 1
                if run.batches and run.batches[-1]['size'] < p['threads']:
                    probes['last_batch_partial'] = probes.get('last_batch_partial', 0) + 1
            if sig['files'] > 2:
                probes['multi_file'] = probes.get('multi_file', 0) + 1
            if any(sig['idx']):
                probes['idx_used'] = probes.get('idx_used', 0) + 1
            if any(f.get('utf8') and f.get('idx') for f in p['layout']['files']):
                probes['non_ascii_gvf_with_idx'] = probes.get('non_ascii_gvf_with_idx', 0) + 1
            if sig['index_dir'] != 'False':
                probes['index_dir_used'] = probes.get('index_dir_used', 0) + 1
            if p['layout'].get('index_dir') == 'foreign' and not run.ok:
                probes['foreign_index_refused'] = probes.get('foreign_index_refused', 0) + 1
            if p['layout'].get('index_dir') == 'foreign+update':
                probes['index_dir_updated_pool'] = probes.get('index_dir_updated_pool', 0) + 1
            if sig['evicting']:
                probes['cache_evicting'] = probes.get('cache_evicting', 0) + 1
            d = compare(ref_run, run, p['layout'])
            if d is not None:
                clause, q, d1 = attribute(case, wd, ref_run, p)
                out['executions'] += 1
                if clause == 'combined':
                    q, d1 = p, d
                out['violations'].append(make_violation(seed, task, case, q, clause, d1))
        if task['case'] % 2 == 1:
            out['ref_seqs'] = seqs
            out['case_for_shadow'] = case
    out['sample'] = {'case': idx, 'stats': case['stats'], 'config': case['config'],
                     'perturbations': [{'threads': p['threads'], 'sched': p['sched'],
                                        'files': [(f['circ'], f['lines'], f['idx']) for f in p['layout']['files']],
                                        'index_dir': p['layout']['index_dir']} for p in perts],
                     'n_ref_peptides': len(seqs)}
    return out


def aggregate(seed, tier, results):
    """Cross-interpreter comparison: same case, reference execution under two PYTHONHASHSEEDs."""
    by_case = {}
    for r in results:
        by_case.setdefault(r['task']['case'], {})[r['task']['mode']] = r
    violations = []
    compared = 0
    for c, d in sorted(by_case.items()):
        if 'main' not in d or 'shadow' not in d:
            continue
        m, s = d['main'], d['shadow']
        if m.get('invalid') or s.get('invalid'):
            if bool(m.get('invalid')) != bool(s.get('invalid')):
                detail = {'main_invalid': m.get('invalid_reason'), 'shadow_invalid': s.get('invalid_reason')}
                violations.append(_hash_violation(seed, m, s, detail, 'hashseed:raised'))
            continue
        compared += 1
        if m['ref_digest'] != s['ref_digest']:
            a, b = set(m.get('ref_seqs', [])), set(s.get('ref_seqs', []))
            detail = {'n_main': len(a), 'n_shadow': len(b), 'only_main': sorted(a - b)[:5],
                      'only_shadow': sorted(b - a)[:5]}
            violations.append(_hash_violation(seed, m, s, detail, 'hashseed:differ'))
    for r in results:
        r.pop('case_for_shadow', None)
        r.pop('ref_seqs', None)
    extra = {'hashseed_pairs_compared': compared,
             'stub_calibration': [r['calibration'] for r in results if r.get('calibration')]}
    if results:
        results[0].setdefault('probes', {})['shadow_hashseed_compared'] = compared
        results[0]['probes']['real_pool_calibrated'] = sum(
            1 for r in results if (r.get('calibration') or {}).get('equal'))
    return violations, extra


def _hash_violation(seed, m, s, detail, signature):
    rep = {
        'property': PROPERTY, 'engine': ENGINE, 'clause': 'hashseed', 'signature': signature,
        'detail': detail, 'seed': seed, 'case': m['task']['case'], 'hclass': m['task']['hclass'],
        'hashseed': driver.HASH_CLASSES[m['task']['hclass']],
        'other_hclass': s['task']['hclass'], 'other_hashseed': driver.HASH_CLASSES[s['task']['hclass']],
        'case_data': m.get('case_for_shadow'),
    }
    rep['digest'] = R.digest([seed, m['task']['case'], 'hashseed'])
    return rep


def ref_digest_only(path):
    """Entry for the second interpreter of a hashseed replay."""
    rep = json.loads(Path(path).read_text())
    case = rep['case_data']
    with cvcase.Scratch('c06h_') as wd:
        run = execute(case, wd, 'ref', cvcase.reference_layout(case), 1, REF_SCHED)
        if not run.ok:
            return {'invalid': True, 'exc': run.exc}
        return {'seqs': seqset(run)}


def replay(rep):
    case = rep['case_data']
    if rep['clause'] == 'threads-under-timeout':
        with cvcase.Scratch('c06tr_') as wd:
            d, _ = timeout_threads(case, wd, rep['plan'], rep['threads'], rep['sched'])
        return [dict(rep, detail=d, signature=viol_signature(rep['clause'], d))] if d is not None else []
    if rep['clause'] == 'hashseed':
        tmp = Path(os.environ.get('VERIF_SCRATCH') or '/tmp') / f"c06h_{os.getpid()}.json"
        tmp.write_text(json.dumps(rep))
        try:
            res = []
            for hc in (rep['hclass'], rep['other_hclass']):
                p = subprocess.run([sys.executable, driver.WORKER_MAIN, 'call', 'sim.engines.cv_sched',
                                    'ref_digest_only', str(tmp)], env=driver.worker_env(hc),
                                   capture_output=True, text=True, timeout=600, cwd=str(driver.VERIF))
                line = [l for l in p.stdout.splitlines() if l.startswith('CALL-RESULT ')]
                res.append(json.loads(line[0][len('CALL-RESULT '):]))
        finally:
            tmp.unlink(missing_ok=True)
        if res[0] != res[1]:
            sig = 'hashseed:raised' if (res[0].get('invalid') or res[1].get('invalid')) else 'hashseed:differ'
            return [dict(rep, signature=sig)]
        return []
    p = rep['pert']
    with cvcase.Scratch('c06r_') as wd:
        ref_run = execute(case, wd, 'ref', cvcase.reference_layout(case), 1, REF_SCHED)
        if not ref_run.ok:
            return []
        run = execute(case, wd, 'pert', p['layout'], p['threads'], p['sched'])
        d = compare(ref_run, run, p['layout'])
        if d is None:
            return []
        return [dict(rep, detail=d, signature=viol_signature(rep['clause'], d))]


def shrink_candidates(rep):
    if rep['clause'] == 'threads-under-timeout':
        case, plan = rep['case_data'], rep['plan']
        if len(plan) > 1:
            for k in sorted(plan):
                yield dict(rep, plan={q: v for q, v in plan.items() if q != k})
        for is_circ, key in ((False, 'var_lines'), (True, 'circ_lines')):
            for i in range(len(case[key]) - 1, -1, -1):
                new_case, _ = cvcase.drop_line(case, [], is_circ, i)
                yield dict(rep, case_data=new_case)
        if rep['threads'] > 2:
            yield dict(rep, threads=2)
        return
    if rep['clause'] == 'hashseed':
        case = rep['case_data']
        for is_circ, key in ((False, 'var_lines'), (True, 'circ_lines')):
            for i in range(len(case[key]) - 1, -1, -1):
                new_case, _ = cvcase.drop_line(case, [], is_circ, i)
                yield dict(rep, case_data=new_case)
        return
    case, p = rep['case_data'], rep['pert']
    # 1. drop records
    for is_circ, key in ((False, 'var_lines'), (True, 'circ_lines')):
        for i in range(len(case[key]) - 1, -1, -1):
            new_case, lays = cvcase.drop_line(case, [p['layout']], is_circ, i)
            yield dict(rep, case_data=new_case, pert=dict(p, layout=lays[0]))
    # 2. threads towards 2
    if p['threads'] > 2:
        yield dict(rep, pert=dict(p, threads=2))
        yield dict(rep, pert=dict(p, threads=p['threads'] - 1))
    # 3. simpler layout
    base = cvcase.reference_layout(case)
    if p['layout'] != base:
        yield dict(rep, pert=dict(p, layout=base))
        if p['layout'].get('index_dir'):
            yield dict(rep, pert=dict(p, layout=dict(p['layout'], index_dir=False)))
        if any(f.get('idx') for f in p['layout']['files']):
            yield dict(rep, pert=dict(p, layout=dict(
                p['layout'], files=[dict(f, idx=False) for f in p['layout']['files']])))
    # 4. schedule knobs
    for k in ('salt', 'gene_cache', 'tx_cache'):
        if k in p['sched'] and p['sched'][k] not in (0, 10):
            s = dict(p['sched'])
            s.pop(k)
            yield dict(rep, pert=dict(p, sched=s))
    # 5. flags off
    for flag in ('selenocysteine_termination', 'w2f_reassignment', 'coding_novel_orf', 'backsplicing_only',
                 'invalid_protein_as_noncoding', 'noncanonical_transcripts'):
        if case['config'].get(flag):
            yield dict(rep, case_data=dict(case, config=dict(case['config'], **{flag: False})))
