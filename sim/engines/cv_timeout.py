"""Engine cv-timeout (C02, timeout/retry clause): a virtual SIGALRM fires at an arbitrary line event of an
arbitrary attempt; the retry ladder then re-runs the wrapper on the very objects the interrupted attempt was
mutating.  Oracle: nothing in the result is absent from all fault-free results of the same real code.
"""
from sim import rng as R
from sim import cvcase, cvrun, driver

PROPERTY = 'C02'
ENGINE = 'cv-timeout'
BUDGET_S = {'quick': 170, 'thorough': 1500}
CASE_TIMEOUT_S = 1200
STUBS = ['cli.common.signal -> FakeSignal/VirtualAlarm (handler called at the k-th line event of an attempt)',
         'pathos ParallelPool -> SimPool']
PROBES = ['corpus_case', 'step_cap_discarded', 'alarm_fired', 'retry_depth_ge_2', 'ladder_exhausted', 'timeout_swallowed_by_skip_failed',
          'peptides_lost_legitimately', 'threads_gt_1', 'fired_in_stage:create_variant_graph',
          'fired_in_stage:fit_into_codons', 'fired_in_stage:translate', 'fired_in_stage:create_cleavage_graph',
          'fired_in_stage:call_variant_peptides', 'fired_in_circ_or_fusion_unit', 'fired_near_attempt_end', 'retry_with_unreduced_limits']
RULE = ('case = generated reference + records, usually with a planted cluster of 5-9 variants within 12 nt so that '
        'the complexity limits bind; ladders from {7 | 7 5 3 | 9 4 | -1} x {2 | 2 1 0}, --skip-failed on/off, '
        'threads 1..4; a plan of 1..ladder+1 alarms on 1-2 transcripts, each at a PRNG-chosen line event (biased '
        'to attempt edges and stage boundaries).  distinct = distinct (retry depth, function containing the fire '
        'site, file:line, skip_failed) over alarms that actually fired')
ASSUMPTIONS = [
    'fault-free executions are taken as sound (the pure-input clause of C02 is not decided by this technique)',
    'alarms are delivered at line granularity inside moPepGen/Bio Python code; C-level code is atomic, as it is '
    'for real signal handlers',
    'simulated time advances by --timeout-seconds per fired alarm',
]
LADDERS_MV = [[7], [7, 5, 3], [9, 4], [-1], [7, 3, 1], [7, 7, 7]]
LADDERS_AV = [[2], [2, 1, 0], [2, 0], [2, 2, 2]]


def n_cases(tier):
    return 72 if tier == 'quick' else 3000


def gen(seed, idx):
    rng = R.case_rng(seed, ENGINE, idx)
    cfg = cvcase.gen_config(rng)
    cfg['noncanonical_transcripts'] = False
    cfg['max_variants_per_node'] = rng.choice(LADDERS_MV)
    cfg['additional_variants_per_misc'] = rng.choice(LADDERS_AV)
    if cfg['max_variants_per_node'] == [7, 7, 7]:
        cfg['additional_variants_per_misc'] = [2, 2, 2]     # a ladder that reduces nothing
    cfg['skip_failed'] = rng.random() < 0.4
    cfg['timeout_seconds'] = rng.choice([1800, 60, 600])
    if rng.random() < 0.2:
        case = cvcase.gen_corpus_case(rng, config=cfg)
    else:
        case = cvcase.gen_case(rng, n_genes=rng.randint(3, 6), n_records=rng.randint(8, 20),
                               cluster=rng.random() < 0.65, config=cfg)
    return case, rng


LINE_CAP = {'quick': 20_000_000, 'thorough': 80_000_000}


def execute(case, wd, tag, threads, sched, overrides=None, alarm_plan=None, count_attempts=False,
            line_cap=None):
    ref, files, out = cvcase.materialise(case, cvcase.reference_layout(case), wd, tag)
    cfg = dict(case['config'], threads=threads)
    if overrides:
        cfg.update(overrides)
    return cvrun.run_callvariant(ref, files, out, cfg, sched, alarm_plan=alarm_plan,
                                 count_attempts=count_attempts, line_cap=line_cap)


def plan_alarms(rng, measure, ladder_len):
    """measure: Run of the traced fault-free execution."""
    lengths = {k[0]: n for k, n in measure.attempt_lines if k[1] == 0 and n > 0}
    if not lengths:
        return {}
    txs = sorted(lengths)
    chosen = rng.sample(txs, min(len(txs), rng.choice([1, 1, 1, 2])))
    plan = {}
    for tx in chosen:
        n = lengths[tx]
        r = rng.choice([1, 1, 2, 2, 3, ladder_len + 1])
        marks = [m[1] for m in measure.stage_marks.get(f'{tx}#0', [])]
        for att in range(r):
            u = rng.random()
            if u < 0.15:
                k = rng.randint(1, max(1, n // 20))
            elif u < 0.3:
                k = rng.randint(max(1, n - n // 20), n)
            elif u < 0.45 and marks:
                k = max(1, rng.choice(marks) + rng.randint(1, 30))
            elif u < 0.75 and marks:
                # stage-stratified: pick a stage interval uniformly (so the short graph-construction stages are
                # interrupted as often as the long peptide-calling stage), then a line inside it
                bounds = sorted(set(marks)) + [n]
                j = rng.randrange(len(bounds) - 1)
                k = rng.randint(max(1, bounds[j]), max(1, bounds[j + 1]))
            else:
                k = rng.randint(1, n)
            plan[f'{tx}#{att}'] = k
    return plan


def judge(case, wd, threads, sched, plan, lazy_box, m=None):
    """Returns (violations [(clause, sig, detail)], info).  ``m`` = traced fault-free execution (measured
    here when not supplied, i.e. on replay)."""
    if m is None:
        m = execute(case, wd, 'm', 1, {'salt': sched.get('salt', 0)}, count_attempts=True)
    if not m.ok:
        return None, {'invalid': m.exc}
    t = execute(case, wd, 't', threads, sched, alarm_plan=plan)
    info = {'measure': m, 'timed': t}
    fired = t.alarm_fired
    out = []
    if not fired:
        return out, info
    cfg = case['config']
    max_attempts = len(cfg['max_variants_per_node']) + max(1, max(cfg['max_variants_per_node'])) + 2
    for tx, n in t.attempt_no.items():
        if n > max_attempts:
            out.append(('retry-bounded', 'retry-bounded', {'tx': tx, 'attempts': n, 'bound': max_attempts}))
    if not t.ok:
        info['aborted'] = t.exc
        return out, info
    e_first = m.wrapper_results
    cache = {}

    def fault_free(mv, av):
        key = (mv, av)
        if key not in cache:
            lazy_box[0] += 1
            r = execute(case, wd, 'e', 1, {'salt': sched.get('salt', 0)},
                        overrides={'max_variants_per_node': [mv], 'additional_variants_per_misc': [av]})
            cache[key] = r
        return cache[key]
    first_limits = (cfg['max_variants_per_node'][0], cfg['additional_variants_per_misc'][0])
    for tx, res in t.wrapper_results.items():
        got = set(res)
        base = set(e_first.get(tx, []))
        if got <= base:
            # a retry whose limits EQUAL the initial ones (ladder 7 7 7 / 2 2 2) reduces nothing: it must reproduce
            # the uninterrupted attempt, losing a peptide is then not "removal by a reduced limit" but state left
            # behind by the interrupted attempt
            if got != base and t.final_params.get(tx) == first_limits and any(f['tx'] == tx for f in fired) \
                    and not cfg.get('skip_failed'):
                out.append(('lost-without-reduction', 'lost-without-reduction',
                            {'tx': tx, 'n_lost': len(base - got), 'lost': sorted(base - got)[:5],
                             'limits': first_limits, 'fired': [f for f in fired if f['tx'] == tx]}))
            continue
        extra = got - base
        mv, av = t.final_params.get(tx, (None, None))
        srcs = []
        # a peptide that the uninterrupted run with the initial limits does not produce is accepted if the fault-free
        # run under the limits of the final attempt, or the run without complexity limits, produces it: whether a
        # fault-free run under some limits is itself sound is the pure-input clause of C02, which this technique
        # does not decide (on the pinned tree max_variants_per_node=1 does yield a circRNA peptide that larger limits
        # do not -- found by the thorough tier when the reduced limits' own output was, for a while, not accepted)
        for lim in ((mv, av), (-1, -1)):
            if lim[0] is None:
                continue
            r = fault_free(*lim)
            if r.ok:
                extra -= set(r.wrapper_results.get(tx, []))
                srcs.append(lim)
            if not extra:
                break
        if extra:
            sites = [f for f in fired if f['tx'] == tx]
            out.append(('invented', f"invented:{'interrupted' if sites else 'other-transcript'}",
                        {'tx': tx, 'n_invented': len(extra), 'invented': sorted(extra)[:5],
                         'final_limits': (mv, av), 'fired': fired, 'compared_with': srcs}))
    # final FASTA: same oracle on the written file
    fa = set(t.fasta)
    fa_base = set(m.fasta)
    if not fa <= fa_base:
        extra = fa - fa_base
        lims = {v for v in t.final_params.values() if v[0] is not None} | {(-1, -1)}
        for lim in sorted(lims):
            r = fault_free(*lim)
            if r.ok:
                extra -= set(r.fasta)
        if extra and not out:
            out.append(('invented', 'invented:fasta', {'n_invented': len(extra), 'invented': sorted(extra)[:5],
                                                      'fired': fired}))
    info['lost'] = len(fa_base - fa)
    return out, info


def run_case(seed, task, tier):
    idx = task['case']
    case, rng = gen(seed, idx)
    out = {'executions': 0, 'signatures': [], 'violations': [], 'probes': {}, 'faults': {}, 'steps': 0,
           'sim_seconds': 0}
    probes = out['probes']
    threads = rng.choice([1, 1, 2, 3, 4])
    sched = {'pool_seed': rng.getrandbits(32), 'salt': rng.choice([0, rng.getrandbits(30) | 1])}
    n_plans = 3 if tier == 'quick' else 5
    with cvcase.Scratch('c02_') as wd:
        m = execute(case, wd, 'm', 1, {'salt': sched['salt']}, count_attempts=True,
                    line_cap=LINE_CAP[tier])
        out['executions'] += 1
        if m.step_capped:
            # an attempt longer than the tier's step cap: bounded runs only (DESIGN 3.1); counted, not judged
            out['invalid'] = True
            out['invalid_reason'] = 'step cap'
            probes['step_cap_discarded'] = 1
            return out
        if not m.ok or not m.attempt_lines:
            out['invalid'] = True
            out['invalid_reason'] = m.exc or 'no attempts'
            return out
        out['steps'] += sum(n for _, n in m.attempt_lines)
        if case['stats'].get('corpus'):
            probes['corpus_case'] = 1
        # do the limits bind on this input?
        ladder = len(case['config']['max_variants_per_node'])
        last_plan = None
        for pl in range(n_plans):
            prng = R.case_rng(seed, ENGINE, idx, f'plan{pl}')
            plan = plan_alarms(prng, m, ladder)
            last_plan = plan
            lazy = [0]
            res, info = judge(case, wd, threads, sched, plan, lazy, m)
            out['executions'] += 1 + lazy[0]
            probes['lazy_oracle_runs'] = probes.get('lazy_oracle_runs', 0) + lazy[0]
            if res is None:
                continue
            t = info['timed']
            out['sim_seconds'] += t.sim_seconds
            out['steps'] += sum(n for _, n in t.attempt_lines)
            for f in t.alarm_fired:
                probes['alarm_fired'] = probes.get('alarm_fired', 0) + 1
                out['faults']['virtual_alarm'] = out['faults'].get('virtual_alarm', 0) + 1
                depth = f['attempt'] + 1
                if depth >= 2:
                    probes['retry_depth_ge_2'] = probes.get('retry_depth_ge_2', 0) + 1
                marks = m.stage_marks.get(f"{f['tx']}#0", []) if f['attempt'] == 0 else []
                stage = unit = None
                for name, at in marks:
                    if at <= f['k']:
                        stage = name
                        if name.startswith('call_peptide_') or name == 'call_canonical_peptides':
                            unit = name
                if unit in ('call_peptide_fusion', 'call_peptide_circ_rna'):
                    probes['fired_in_circ_or_fusion_unit'] = probes.get('fired_in_circ_or_fusion_unit', 0) + 1
                if stage:
                    key = 'fired_in_stage:' + stage
                    if key in PROBES:
                        probes[key] = probes.get(key, 0) + 1
                n0 = dict((k[0], n) for k, n in m.attempt_lines if k[1] == 0).get(f['tx'], 0)
                if f['attempt'] == 0 and n0 and f['k'] > 0.95 * n0:
                    probes['fired_near_attempt_end'] = probes.get('fired_near_attempt_end', 0) + 1
                out['signatures'].append({'depth': depth, 'func': f['func'], 'site': f['site'],
                                          'skip_failed': case['config']['skip_failed']})
            if t.alarm_fired and len(set(case['config']['max_variants_per_node'])) == 1 and \
                    len(case['config']['max_variants_per_node']) > 1:
                probes['retry_with_unreduced_limits'] = probes.get('retry_with_unreduced_limits', 0) + 1
            if threads > 1 and t.alarm_fired:
                probes['threads_gt_1'] = probes.get('threads_gt_1', 0) + 1
            if info.get('aborted'):
                if 'Failed to finish' in str(info['aborted']) or info['aborted'][0] in ('ValueError', 'TypeError'):
                    probes['ladder_exhausted'] = probes.get('ladder_exhausted', 0) + 1
            elif t.alarm_fired:
                if info.get('lost'):
                    probes['peptides_lost_legitimately'] = probes.get('peptides_lost_legitimately', 0) + 1
                swallowed = [f for f in t.alarm_fired
                             if t.attempt_no.get(f['tx'], 0) <= f['attempt'] + 1 and case['config']['skip_failed']]
                if swallowed and t.tally and sum(t.tally.n_transcripts_failed.values()) > 0:
                    probes['timeout_swallowed_by_skip_failed'] = probes.get('timeout_swallowed_by_skip_failed', 0) + 1
            for clause, sig, detail in res:
                rep = {'property': PROPERTY, 'engine': ENGINE, 'clause': clause, 'signature': sig,
                       'detail': detail, 'seed': seed, 'case': idx, 'hclass': task['hclass'],
                       'hashseed': driver.HASH_CLASSES[task['hclass']], 'case_data': case, 'plan': plan,
                       'threads': threads, 'sched': sched}
                rep['digest'] = R.digest([seed, idx, clause, plan])
                out['violations'].append(rep)
        out['sample'] = {'case': idx, 'stats': case['stats'], 'config': case['config'], 'threads': threads,
                         'attempt_lengths': [(k, n) for k, n in m.attempt_lines][:8], 'last_alarm_plan': last_plan}
    return out


def replay(rep):
    with cvcase.Scratch('c02r_') as wd:
        res, _ = judge(rep['case_data'], wd, rep['threads'], rep['sched'], rep['plan'], [0])
    if res is None:
        return []
    return [dict(rep, clause=c, signature=s, detail=d) for c, s, d in res]


def shrink_candidates(rep):
    case, plan = rep['case_data'], rep['plan']
    keys = sorted(plan, key=lambda k: (k.split('#')[0], -int(k.split('#')[1])))
    if len(plan) > 1:
        for k in keys:
            yield dict(rep, plan={q: v for q, v in plan.items() if q != k})
    if rep['threads'] > 1:
        yield dict(rep, threads=1)
    for is_circ, key in ((False, 'var_lines'), (True, 'circ_lines')):
        for i in range(len(case[key]) - 1, -1, -1):
            new_case, _ = cvcase.drop_line(case, [], is_circ, i)
            yield dict(rep, case_data=new_case)
    for k in keys:
        if plan[k] > 1:
            yield dict(rep, plan=dict(plan, **{k: plan[k] // 2}))
    if rep['sched'].get('salt'):
        yield dict(rep, sched=dict(rep['sched'], salt=0))
    for flag in ('selenocysteine_termination', 'w2f_reassignment', 'coding_novel_orf', 'backsplicing_only',
                 'invalid_protein_as_noncoding', 'skip_failed'):
        if case['config'].get(flag):
            yield dict(rep, case_data=dict(case, config=dict(case['config'], **{flag: False})))
