"""Engine gvf-store (C13): GVF text files + .idx side-cars + shared seekable handles as a small file-backed
store.  Reference model: the in-memory record list / a linear scan.  Hypothesis stateful histories:
record round trips, layouts and per-transcript loads (with and without idx), stale-index faults.
"""
import argparse
import collections
import contextlib
import io
import json
import shutil
import sys
from pathlib import Path

from sim import boot, rng as R, workload, cvcase, driver, harvest, hyprun

boot.boot()

# pylint: disable=wrong-import-position
from hypothesis import settings, seed as hseed, strategies as st, Verbosity, HealthCheck
from hypothesis.stateful import RuleBasedStateMachine, rule, initialize, run_state_machine_as_test
import moPepGen.cli.index_gvf  # noqa
from moPepGen import seqvar, circ, fake, constant
from moPepGen.seqvar import VariantRecordPoolOnDisk, VariantRecordPoolOnDiskOpener
from moPepGen.SeqFeature import FeatureLocation

ig = sys.modules['moPepGen.cli.index_gvf']

PROPERTY = 'C13'
ENGINE = 'gvf-store'
BUDGET_S = {'quick': 100, 'thorough': 1200}
CASE_TIMEOUT_S = 900
STUBS = []
PROBES = ['roundtrip_variant', 'roundtrip_circ', 'layout_multi_file', 'layout_interleaved', 'layout_empty_body',
          'idx_loaded', 'repeated_load', 'stale_rejected', 'identical_rewrite_accepted', 'reindex_after_edit',
          'foreign_idx', 'no_checksum', 'kind_Fusion', 'kind_Insertion', 'kind_Deletion', 'kind_Substitution',
          'kind_MNV', 'kind_RNAEditingSite', 'kind_INDEL', 'kind_SNV', 'harvested_records', 'non_ascii_bytes']
RULE = ('case = record pool (records harvested from the seven real parsers on the demo tool outputs + generated '
        'SNV/INDEL/MNV/RES/fusion/alt-splicing/circRNA records with random extra attributes); history = Hypothesis '
        'rule sequence (<=30 steps): round trip of a record, write a layout (1-4 files, contiguous or interleaved '
        'transcripts, empty body), open with/without .idx, per-transcript loads in any order through the shared '
        'handles, edit-after-index faults.  distinct = distinct (#files, interleaved, idx mode, edit kind, record '
        'kinds) signatures')
ASSUMPTIONS = [
    'linear-scan model uses the product line parsers (line_to_variant_record / line_to_circ_model)',
    'the variant type is not part of a GVF line (SNP/RNAEditingSite parse back as SNV): not compared',
    'corrupting pointer lines of an .idx under a valid checksum is outside the property',
    'comment lines inside the record body are not produced by any moPepGen writer and are not generated',
]


class Violation(Exception):
    def __init__(self, clause, signature, detail):
        super().__init__(f'{clause}: {signature}')
        self.clause, self.signature, self.detail = clause, signature, detail


def n_cases(tier):
    return 64 if tier == 'quick' else 4000


_HARVEST = {}


def harvested():
    if not _HARVEST:
        got, counts = harvest.harvest()
        _HARVEST['v'] = got['variant']
        _HARVEST['c'] = got['circ']
        _HARVEST['counts'] = counts
    return _HARVEST


# ---------------------------------------------------------------------------------------------
# record pool of a case
# ---------------------------------------------------------------------------------------------

def extra_attrs(rng, r):
    """random attribute subsets / additions (documented GVF INFO keys)"""
    if rng.random() < 0.3:
        r.attrs.pop('GENOMIC_POSITION', None)
    if rng.random() < 0.3:
        r.attrs['STRAND'] = rng.choice(['+', '-'])
    if rng.random() < 0.2:
        r.attrs['PHASE_SET'] = str(rng.randint(1, 3))
    if rng.random() < 0.2:
        # multi-byte UTF-8 in an attribute value: byte offsets and character offsets differ
        r.attrs['GENE_SYMBOL'] = rng.choice(['ΔNp63α', 'TNFα', 'β2M', 'IFN-γ'])
    return r


def build_pool(seed, idx):
    rng = R.case_rng(seed, ENGINE, idx)
    texts, anno, genome = workload.gen_reference(rng, rng.randint(3, 6))
    maker = workload.RecordMaker(anno, genome)
    txs = list(anno.transcripts)
    v, c = [], []
    for _ in range(rng.randint(6, 14)):
        tx = rng.choice(txs)
        k = rng.random()
        try:
            if k < 0.35:
                r = extra_attrs(rng, maker.small(rng, tx))
            elif k < 0.45:
                r = maker.small(rng, tx, kind='SNV')
                r.type = 'RNAEditingSite'
                r.id = 'RES-' + r.id
            elif k < 0.55:
                a = maker.small(rng, tx, kind='DEL')
                alt = ''.join(rng.choice('ACGT') for _ in range(len(a.ref)))
                if alt == a.ref:
                    continue
                r = seqvar.VariantRecord(location=a.location, ref=a.ref, alt=alt, _type='MNV',
                                         _id=f'MNV-{a.location.start}-{a.ref}-{alt}', attrs=dict(a.attrs))
            elif k < 0.7:
                with workload.global_random(rng):
                    r = fake.fake_fusion(anno, genome, tx)
            elif k < 0.85:
                with workload.global_random(rng):
                    r = fake.fake_rmats_record(anno, genome, tx)
            else:
                with workload.global_random(rng):
                    r = fake.fake_circ_rna_model(anno, tx, 0.3)
        except Exception:  # pylint: disable=broad-except
            continue
        (c if isinstance(r, circ.CircRNAModel) else v).append(r)
    # fragments listed in descending gene coordinates (negative OFFSET), as parseCIRCexplorer lists them for some
    # genes: the line carries the order, and INTRON indexes into it
    import copy
    for r in list(c):
        if len(r.fragments) >= 2 and rng.random() < 0.6:
            r2 = copy.deepcopy(r)
            r2.fragments.reverse()
            n = len(r2.fragments)
            r2.intron = [n + 1 - i for i in r2.intron]
            r2.id = r.id + '-DESC'
            c.append(r2)
    h = harvested()
    use_h = rng.random() < 0.6
    if use_h:
        v = v + list(h['v'])
        c = c + list(h['c'])
    if not c:
        c = list(h['c'])
    if not v:
        v = list(h['v'])
    return ({'v': [r.to_string() for r in v], 'c': [r.to_string() for r in c]},
            {'v': v, 'c': c, 'anno': anno, 'genome': genome}, use_h)


def fmt_attr(key, val):
    if isinstance(val, list):
        return ','.join(str(x) for x in val)
    return str(val)


def line_tx(line, is_circ):
    return workload.line_tx_id(line)


def parse_line(line, is_circ):
    return circ.io.line_to_circ_model(line) if is_circ else seqvar.io.line_to_variant_record(line)


def record_kind(line):
    alt = line.split('\t')[4]
    ref = line.split('\t')[3]
    if alt.startswith('<'):
        return {'<FUSION>': 'Fusion', '<DEL>': 'Deletion', '<INS>': 'Insertion', '<SUB>': 'Substitution'}.get(alt, alt)
    if alt == '.':
        return 'circRNA'
    if len(ref) == len(alt) == 1:
        return 'RNAEditingSite' if line.split('\t')[2].startswith('RES-') else 'SNV'
    if len(ref) == 1 or len(alt) == 1:
        return 'INDEL'
    return 'MNV'


class Sim:
    def __init__(self, workdir, lines, objs):
        self.dir = Path(workdir)
        self.dir.mkdir(parents=True, exist_ok=True)
        self.lines = lines       # {'v': [...], 'c': [...]}: W(r) of every record of the pool
        self.objs = objs         # in-memory records (None on replay: round trip then starts from the parsed line)
        self.gen = 0
        self.files = []          # [(path, is_circ, [lines])]
        self.pools = {}          # 'noidx' / 'idx' -> (pool, opener)
        self.scan = {}
        self.stats = {'kinds': {}, 'probes': {}, 'sig': []}

    def probe(self, p):
        self.stats['probes'][p] = self.stats['probes'].get(p, 0) + 1

    def close(self):
        for pool, opener in self.pools.values():
            with contextlib.suppress(Exception):
                opener.close()
        self.pools = {}

    # ---- round trip --------------------------------------------------------------------------
    def op_roundtrip(self, kind, i):
        lines = self.lines[kind]
        i %= len(lines)
        is_circ = kind == 'c'
        w1 = lines[i]
        r = self.objs[kind][i] if self.objs else parse_line(w1, is_circ)
        if self.objs and r.to_string() != w1:
            raise Violation('roundtrip', 'roundtrip:unstable-write', {'first': w1, 'second': r.to_string()})
        try:
            r2 = parse_line(w1, is_circ)
            w2 = r2.to_string()
        except Exception as e:  # pylint: disable=broad-except
            raise Violation('roundtrip', f'roundtrip:parse-raised:{type(e).__name__}',
                            {'line': w1, 'exc': str(e)[:200]}) from e
        self.probe('roundtrip_circ' if is_circ else 'roundtrip_variant')
        self.probe('kind_' + record_kind(w1))
        if w2 != w1:
            f1, f2 = w1.split('\t'), w2.split('\t')
            col = [k for k, (a, b) in enumerate(zip(f1, f2)) if a != b]
            what = 'circ' if is_circ else record_kind(w1)
            lost = ''
            if col == [7]:
                a1 = dict(x.split('=', 1) for x in f1[7].split(';') if '=' in x)
                a2 = dict(x.split('=', 1) for x in f2[7].split(';') if '=' in x)
                lost = ','.join(sorted(k for k in a1 if a1.get(k) != a2.get(k)))
            raise Violation('roundtrip', f'roundtrip:text:{what}:{lost}', {'W(r)': w1, 'W(P(W(r)))': w2})
        if is_circ:
            want = (r.transcript_id, r.gene_id, r.gene_name, r.id, str(r.genomic_position),
                    [(int(f.location.start), int(f.location.end)) for f in r.fragments],
                    [int(x) for x in r.intron])
            got = (r2.transcript_id, r2.gene_id, r2.gene_name, r2.id, str(r2.genomic_position),
                   [(int(f.location.start), int(f.location.end)) for f in r2.fragments],
                   [int(x) for x in r2.intron])
            if want != got:
                raise Violation('roundtrip', 'roundtrip:fields:circ', {'record': str(want), 'parsed': str(got)})
        else:
            want_attrs = {k.upper(): fmt_attr(k, v) for k, v in r.attrs.items()}
            got_attrs = {k: fmt_attr(k, v) for k, v in r2.attrs.items()}
            want = (r.location.seqname, int(r.location.start), r.id, want_attrs)
            got = (r2.location.seqname, int(r2.location.start), r2.id, got_attrs)
            if want != got:
                raise Violation('roundtrip', f'roundtrip:fields:{record_kind(w1)}',
                                {'record': str(want)[:300], 'parsed': str(got)[:300]})
            # the end is compared where the line determines it the way the record does: small variants, and
            # Deletion/Substitution records whose location agrees with their own START attribute (records made
            # by moPepGen.fake anchor some deletions elsewhere; every real parser emits location == START..END)
            consistent = r.type in ('SNV', 'SNP', 'INDEL', 'MNV', 'RNAEditingSite') or (
                r.type in ('Deletion', 'Substitution') and 'START' in r.attrs
                and int(r.attrs['START']) == int(r.location.start))
            if consistent and int(r.location.end) != int(r2.location.end):
                raise Violation('roundtrip', f'roundtrip:end:{record_kind(w1)}',
                                {'line': w1, 'end': int(r.location.end), 'parsed_end': int(r2.location.end)})

    # ---- layouts -----------------------------------------------------------------------------
    def op_layout(self, files, sort_tx, utf8_header=False, no_final_newline=False):
        """files: list of (kind, [indices]); writes them, opens a pool without idx, builds idx, opens a
        second pool with idx."""
        self.close()
        d = self.dir / f'lay{self.gen}'
        self.gen += 1
        d.mkdir()
        self.files = []
        for k, (kind, idxs) in enumerate(files):
            src = self.lines[kind]
            ls = [src[i % len(src)] for i in idxs]
            if sort_tx:
                ls.sort(key=workload.line_tx_id)
            p = d / f'{kind}{k}.gvf'
            text = workload.gvf_text(
                ls, kind == 'c', genome_fasta='/data/José/références/génome.fa' if utf8_header else None)
            if no_final_newline and ls:
                text = text.rstrip('\n')          # a file whose last record line is not newline-terminated
                self.probe('no_final_newline')
            p.write_text(text)
            self.files.append([p, kind == 'c', ls])
        if len(self.files) > 1:
            self.probe('layout_multi_file')
        if any(not f[2] for f in self.files):
            self.probe('layout_empty_body')
        inter = False
        for _, _, ls in self.files:
            seen, last = set(), None
            for l in ls:
                t = workload.line_tx_id(l)
                if t != last and t in seen:
                    inter = True
                seen.add(t)
                last = t
        if inter:
            self.probe('layout_interleaved')
        self.interleaved = inter
        self.rescan()
        self.open_pool('noidx')
        for p, _, _ in self.files:
            self.index(p)
        self.open_pool('idx')
        self.probe('idx_loaded')
        self.compare_keys('noidx')
        self.compare_keys('idx')
        if utf8_header or any(ord(c) > 127 for _, _, ls in self.files for l in ls for c in l):
            self.probe('non_ascii_bytes')
        kinds = sorted({record_kind(l) for _, _, ls in self.files for l in ls})
        self.stats['sig'].append({'files': len(self.files), 'interleaved': inter, 'kinds': kinds})

    def rescan(self):
        scan = collections.defaultdict(collections.Counter)
        for p, is_circ, _ in self.files:
            with open(p, 'rt') as h:
                for line in h:
                    if line.startswith('#'):
                        continue
                    r = parse_line(line, is_circ)
                    scan[r.transcript_id][r.to_string()] += 1
        self.scan = scan

    def index(self, p):
        with contextlib.redirect_stdout(io.StringIO()):
            ig.index_gvf(argparse.Namespace(command='indexGVF', input_path=Path(p), quiet=True, debug_level=1))

    def open_pool(self, name):
        pool = VariantRecordPoolOnDisk(gvf_files=[f[0] for f in self.files])
        opener = VariantRecordPoolOnDiskOpener(pool)
        try:
            opener.open()
        except Exception as e:  # pylint: disable=broad-except
            with contextlib.suppress(Exception):
                opener.close()
            raise Violation('open', f'open:{name}:{type(e).__name__}', {'exc': str(e)[:200]}) from e
        self.pools[name] = (pool, opener)

    def compare_keys(self, name):
        pool = self.pools[name][0]
        if set(pool.pointers) != set(self.scan):
            raise Violation('index-keys', f'index-keys:{name}',
                            {'only_pointers': sorted(set(pool.pointers) - set(self.scan))[:5],
                             'only_scan': sorted(set(self.scan) - set(pool.pointers))[:5]})

    def op_load(self, name, k, times):
        if name not in self.pools or not self.scan:
            return
        pool = self.pools[name][0]
        keys = sorted(self.scan)
        key = keys[k % len(keys)]
        for _ in range(times):
            got = collections.Counter()
            try:
                for ptr in pool.pointers[key]:
                    for r in ptr.load():
                        got[r.to_string()] += 1
            except Exception as e:  # pylint: disable=broad-except
                raise Violation('index-load', f'index-load:{name}:raised:{type(e).__name__}',
                                {'key': key, 'exc': str(e)[:200]}) from e
            if got != self.scan[key]:
                raise Violation('index-load', f'index-load:{name}',
                                {'key': key, 'n_loaded': sum(got.values()), 'n_scan': sum(self.scan[key].values()),
                                 'only_loaded': sorted((got - self.scan[key]))[:2],
                                 'only_scan': sorted((self.scan[key] - got))[:2],
                                 'interleaved': self.interleaved})
        if times > 1:
            self.probe('repeated_load')

    # ---- stale index -------------------------------------------------------------------------
    def op_edit(self, kind, fi, a, b):
        if not self.files:
            return
        self.close()
        fi %= len(self.files)
        p, is_circ, ls = self.files[fi]
        idx = Path(str(p) + '.idx')
        if not idx.exists():
            self.index(p)
        before = p.read_bytes()
        idx_before = idx.read_text()
        text = before.decode()
        lines = text.splitlines(keepends=True)
        body = [i for i, l in enumerate(lines) if not l.startswith('#')]
        # (the ##parser= line carries the file type -- circRNA or variant records -- so flipping a byte in it turns the
        # file into another kind of GVF; found by the thorough tier as a false alarm: the scan kept parsing circRNA
        # records while the product, rightly, parsed variant records.  That line is therefore not edited.)
        head = [i for i, l in enumerate(lines) if l.startswith('##') and not l.startswith('##parser=')]
        expect_reject = None
        if kind == 'append':
            src = self.lines['c' if is_circ else 'v']
            p.write_text(text + src[a % len(src)] + '\n')
        elif kind == 'delete':
            if not body:
                return
            del lines[body[a % len(body)]]
            p.write_text(''.join(lines))
        elif kind == 'swap':
            if len(body) < 2:
                return
            i, j = body[a % len(body)], body[b % len(body)]
            lines[i], lines[j] = lines[j], lines[i]
            p.write_text(''.join(lines))
        elif kind in ('flip_body', 'flip_header'):
            pool_idx = body if kind == 'flip_body' else head
            if not pool_idx:
                return
            li = pool_idx[a % len(pool_idx)]
            s = lines[li]
            pos = b % max(1, len(s) - 1)
            ch = 'Z' if s[pos] != 'Z' else 'Y'
            lines[li] = s[:pos] + ch + s[pos + 1:]
            p.write_text(''.join(lines))
        elif kind == 'identical':
            p.write_bytes(before)
        elif kind == 'foreign_idx':
            others = [f for f in self.files if f[0] != p and Path(str(f[0]) + '.idx').exists()
                      and f[0].read_bytes() != before]
            if not others:
                return
            idx.write_text(Path(str(others[a % len(others)][0]) + '.idx').read_text())
            expect_reject = True
            self.probe('foreign_idx')
        elif kind == 'no_checksum':
            idx.write_text(''.join(l for l in idx_before.splitlines(keepends=True) if 'CHECKSUM' not in l))
            expect_reject = True
            self.probe('no_checksum')
        changed = p.read_bytes() != before
        if expect_reject is None:
            expect_reject = changed
        pool = VariantRecordPoolOnDisk(gvf_files=[f[0] for f in self.files])
        opener = VariantRecordPoolOnDiskOpener(pool)
        outcome = 'opened'
        try:
            opener.open()
        except ValueError:
            outcome = 'rejected'
        except Exception as e:  # pylint: disable=broad-except
            outcome = 'other:' + type(e).__name__
        finally:
            with contextlib.suppress(Exception):
                opener.close()
        self.stats['sig'].append({'edit': kind, 'changed': changed, 'outcome': outcome})
        if expect_reject and outcome == 'opened':
            raise Violation('stale-accepted', f'stale-accepted:{kind}', {'edit': kind, 'file': p.name})
        if not expect_reject and outcome != 'opened':
            raise Violation('valid-rejected', f'valid-rejected:{kind}:{outcome}', {'edit': kind})
        if expect_reject:
            self.probe('stale_rejected')
            self.stats['probes']['fault:' + kind] = self.stats['probes'].get('fault:' + kind, 0) + 1
        else:
            self.probe('identical_rewrite_accepted')
        # recovery: re-index; if that succeeds the store must open and equal the scan again
        try:
            self.index(p)
            self.files[fi][2] = [l.rstrip('\n') for l in p.read_text().splitlines() if not l.startswith('#')]
            self.rescan()
        except Violation:
            raise
        except Exception:  # pylint: disable=broad-except
            # the edit made the GVF itself unparsable: restore
            p.write_bytes(before)
            self.index(p)
            self.rescan()
            return
        self.probe('reindex_after_edit')
        self.open_pool('idx')
        self.compare_keys('idx')

    # ---- the API callVariant uses: pool[transcript] ---------------------------------------------
    @staticmethod
    def series_digest(series):
        def one(r):
            if isinstance(r, circ.CircRNAModel):
                return 'C|' + r.to_string()
            return '|'.join([r.to_string(), str(int(r.location.start)), str(int(r.location.end)), r.location.seqname or ''])
        return {k: sorted(one(r) for r in getattr(series, k)) for k in ('transcriptional', 'intronic', 'fusion', 'circ_rna')}

    def op_getitem(self, name, k, times):
        """pool[tx] (dedupe, conversion to transcript coordinates, breakpoint shifting) must not depend on how often
        or in which order transcripts were asked for: every repeated call, and the first call on a freshly opened
        pool, return the same series."""
        if name not in self.pools or not self.scan or not self.objs or 'anno' not in self.objs:
            return
        pool = self.pools[name][0]
        keys = sorted(t for t in self.scan if t in self.objs['anno'].transcripts)
        if not keys:
            return
        key = keys[k % len(keys)]
        pool.anno, pool.genome = self.objs['anno'], self.objs['genome']

        def get(p):
            try:
                return ('ok', self.series_digest(p[key]))
            except Exception as e:  # pylint: disable=broad-except
                return ('exc', type(e).__name__)
        fresh = VariantRecordPoolOnDisk(gvf_files=[f[0] for f in self.files], anno=self.objs['anno'],
                                        genome=self.objs['genome'])
        opener = VariantRecordPoolOnDiskOpener(fresh)
        try:
            opener.open()
            base = get(fresh)
        except ValueError:
            return           # stale index on disk: covered by the edit operations
        finally:
            with contextlib.suppress(Exception):
                opener.close()
        self.probe('getitem')
        if base[0] == 'ok' and base[1]['fusion']:
            self.probe('getitem_fusion')
        for n in range(times):
            got = get(pool)
            if got != base:
                diff = [k2 for k2 in base[1] if got[0] == 'ok' and got[1][k2] != base[1][k2]] if base[0] == 'ok' else []
                raise Violation('getitem', f'getitem:{name}:{"+".join(diff) or got[0]}',
                                {'key': key, 'call': n + 1, 'fresh_pool': str(base)[:400], 'this_pool': str(got)[:400]})

    # ---- crash during indexGVF ---------------------------------------------------------------
    def op_crash_index(self, fi, frac, with_old_idx):
        """indexGVF is killed at a PRNG-chosen line event (the simulated crash raises through the product's frames,
        so what was written so far stays on disk -- the durable state), then the store is opened again: whatever
        .idx is found must be refused or give the same record sets as a linear scan."""
        if not self.files:
            return
        self.close()
        fi %= len(self.files)
        p = self.files[fi][0]
        idx = Path(str(p) + '.idx')
        if not with_old_idx and idx.exists():
            idx.unlink()

        def traced_index(path, k_fire):
            st = {'n': 0}

            class SimCrash(BaseException):
                pass

            def local(frame, event, arg):
                if event == 'line':
                    st['n'] += 1
                    if k_fire is not None and st['n'] == k_fire:
                        raise SimCrash()
                return local

            def glob(frame, event, arg):
                return local if 'moPepGen' in frame.f_code.co_filename else None
            prev = sys.gettrace()
            sys.settrace(glob)
            try:
                self.index(path)
            except SimCrash:
                return st['n'], True
            finally:
                sys.settrace(prev)
            return st['n'], False
        # measure on a scratch copy so that the measuring run leaves nothing behind
        tmp = p.with_name('measure_' + p.name)
        shutil.copy(p, tmp)
        try:
            n_lines, _ = traced_index(tmp, None)
        finally:
            for q in (tmp, Path(str(tmp) + '.idx')):
                if q.exists():
                    q.unlink()
        if int(frac * 1e5) % 3 == 0:
            frac = 0.85 + 0.15 * frac       # a third of the crashes in the last part of the run (output phase)
        k = max(1, min(n_lines, int(frac * n_lines) + 1))
        _, crashed = traced_index(p, k)
        self.probe('fault:indexgvf_crash' if crashed else 'indexgvf_crash_missed')
        if crashed and idx.exists():
            self.probe('idx_left_by_crashed_indexgvf')
        self.rescan()
        pool = VariantRecordPoolOnDisk(gvf_files=[f[0] for f in self.files])
        opener = VariantRecordPoolOnDiskOpener(pool)
        try:
            opener.open()
        except ValueError:
            # refused: the user re-runs indexGVF
            with contextlib.suppress(Exception):
                opener.close()
            self.probe('idx_after_crash_refused')
            self.index(p)
            self.open_pool('idx')
            self.compare_keys('idx')
            return
        except Exception as e:  # pylint: disable=broad-except
            with contextlib.suppress(Exception):
                opener.close()
            raise Violation('crash-index', f'crash-index:open-raised:{type(e).__name__}',
                            {'exc': str(e)[:200], 'crash_at_line_event': k, 'of': n_lines}) from e
        self.pools['idx'] = (pool, opener)
        try:
            self.compare_keys('idx')
            for key in sorted(self.scan):
                got = collections.Counter()
                for ptr in pool.pointers[key]:
                    for r in ptr.load():
                        got[r.to_string()] += 1
                if got != self.scan[key]:
                    raise Violation('index-load', 'index-load:after-crash', {'key': key})
        except Violation as v:
            raise Violation('crash-index', f'crash-index:{v.signature}',
                            dict(v.detail, crash_at_line_event=k, of=n_lines,
                                 idx_bytes=idx.stat().st_size if idx.exists() else None)) from v
        except Exception as e:  # pylint: disable=broad-except
            raise Violation('crash-index', f'crash-index:load-raised:{type(e).__name__}',
                            {'exc': str(e)[:200], 'crash_at_line_event': k, 'of': n_lines}) from e

    def apply(self, op):
        self.stats['kinds'][op[0]] = self.stats['kinds'].get(op[0], 0) + 1
        getattr(self, 'op_' + op[0])(*op[1:])


EDITS = ['append', 'delete', 'swap', 'flip_body', 'flip_header', 'identical', 'foreign_idx', 'no_checksum']


def make_machine(workdir_factory, lines, objs, trace_box, stats_box, log=None):
    log = log or hyprun.HistoryLog()
    file_st = st.tuples(st.sampled_from(['v', 'v', 'v', 'c']), st.lists(st.integers(0, 60), min_size=0, max_size=9))

    class Machine(RuleBasedStateMachine):
        def __init__(self):
            super().__init__()
            self.sim = Sim(workdir_factory(), lines, objs)
            self.trace = log.new_trace()
            trace_box[0] = self.trace
            stats_box.append(self.sim.stats)

        def do(self, op):
            self.trace.append(list(op))
            try:
                self.sim.apply(op)
            except Violation as v:
                log.note(v)
                raise

        @rule(kind=st.sampled_from(['v', 'v', 'c']), i=st.integers(0, 60))
        def roundtrip(self, kind, i):
            self.do(('roundtrip', kind, i))

        @rule(files=st.lists(file_st, min_size=1, max_size=4), sort_tx=st.booleans(),
              utf8_header=st.sampled_from([False, False, True]), no_nl=st.sampled_from([False, False, False, True]))
        def layout(self, files, sort_tx, utf8_header, no_nl):
            self.do(('layout', [list(f) for f in files], sort_tx, utf8_header, no_nl))

        @rule(name=st.sampled_from(['noidx', 'idx']), k=st.integers(0, 30), times=st.sampled_from([1, 1, 2, 3]))
        def load(self, name, k, times):
            self.do(('load', name, k, times))

        @rule(name=st.sampled_from(['noidx', 'idx']), k=st.integers(0, 30))
        def load2(self, name, k):
            self.do(('load', name, k, 1))

        @rule(kind=st.sampled_from(EDITS), fi=st.integers(0, 3), a=st.integers(0, 40), b=st.integers(0, 200))
        def edit(self, kind, fi, a, b):
            self.do(('edit', kind, fi, a, b))

        @rule(name=st.sampled_from(['noidx', 'idx']), k=st.integers(0, 30), times=st.sampled_from([1, 2, 2, 3]))
        def getitem(self, name, k, times):
            self.do(('getitem', name, k, times))

        @rule(fi=st.integers(0, 3), frac=st.floats(0, 1), with_old_idx=st.booleans())
        def crash_index(self, fi, frac, with_old_idx):
            self.do(('crash_index', fi, round(frac, 5), with_old_idx))

        def teardown(self):
            self.sim.close()
            shutil.rmtree(self.sim.dir, ignore_errors=True)
    return Machine


def run_case(seed, task, tier):
    idx = task['case']
    lines, objs, used_harvest = build_pool(seed, idx)
    out = {'executions': 0, 'signatures': [], 'violations': [], 'probes': {}, 'faults': {}, 'steps': 0}
    n_examples = 30 if tier == 'quick' else 60
    trace_box = [None]
    stats_box = []
    with cvcase.Scratch('c13_') as wd:
        counter = [0]

        def factory():
            counter[0] += 1
            return Path(wd) / f'h{counter[0]}'
        log = hyprun.HistoryLog()
        machine = make_machine(factory, lines, objs, trace_box, stats_box, log)
        hs = R.derive(seed, ENGINE, idx, 'hyp') % (2 ** 32)
        viol = None
        res = hyprun.run(machine, hs, n_examples, 30, log, Violation)
        if res is not None:
            viol_kind, viol = res
        if viol is not None:
            rep = {'property': PROPERTY, 'engine': ENGINE, 'clause': viol.clause, 'signature': viol.signature,
                   'detail': viol.detail, 'seed': seed, 'case': idx, 'hclass': task['hclass'],
                   'hashseed': driver.HASH_CLASSES[task['hclass']], 'lines': lines,
                   'note2': 'round-trip ops replay from the W(r) lines of the in-memory records'}
            rep.update(hyprun.report_fields(viol_kind, log, trace_box[0]))
            rep['digest'] = R.digest([seed, idx, viol.clause, rep['ops']])
            out['violations'].append(rep)
    for s in stats_box:
        out['executions'] += 1
        out['steps'] += sum(s['kinds'].values())
        for k, v in s['probes'].items():
            if k.startswith('fault:'):
                out['faults'][k[6:]] = out['faults'].get(k[6:], 0) + v
            else:
                out['probes'][k] = out['probes'].get(k, 0) + v
        out['signatures'].extend(s['sig'])
    if used_harvest:
        out['probes']['harvested_records'] = 1
    out['sample'] = {'case': idx, 'n_variant_records': len(lines['v']), 'n_circ_records': len(lines['c']),
                     'harvested': used_harvest, 'last_history': trace_box[0]}
    return out


def replay(rep):
    with cvcase.Scratch('c13r_') as wd:
        sim = Sim(Path(wd) / 'h', rep['lines'], None)
        if rep.get('in_memory', True):
            # rebuild the in-memory records when the pool can be regenerated from the seed
            try:
                lines, objs, _ = build_pool(rep['seed'], rep['case'])
                if lines == rep['lines']:
                    sim.objs = objs
            except Exception:  # pylint: disable=broad-except
                pass
        sims = [sim]

        def run_history(ops):
            # every history starts from a fresh store (as every Hypothesis example did)
            cur = Sim(Path(wd) / f'h{len(sims)}', rep['lines'], sim.objs)
            sims.append(cur)
            for op in ops:
                cur.apply(tuple(op) if op[0] != 'layout' else ('layout', [tuple(f) for f in op[1]], *op[2:]))
        try:
            v = hyprun.replay_with_histories(rep, run_history, Violation)
            if v is not None:
                return [dict(rep, clause=v.clause, signature=v.signature, detail=v.detail)]
        finally:
            for x in sims:
                x.close()
    return []


def shrink_candidates(rep):
    ops = rep['ops']
    for i in range(len(ops) - 1, -1, -1):
        if len(ops) > 1:
            yield dict(rep, ops=ops[:i] + ops[i + 1:], histories=None)
