"""Engine gtf-store (C11): access histories over the on-disk annotation store vs the fully parsed
annotation, plus coordinate / sequence cross-invariants and GTF write->parse histories.

One case = one generated (or demo) annotation + one Hypothesis stateful run (seeded) whose rules drive the
real GenomicAnnotationOnDisk and the reference model side by side.  The recorded op list is the replay file;
``apply_ops`` replays it without Hypothesis.
"""
import io
import os
import shutil
from pathlib import Path

from sim import boot, rng as R, workload, cvcase, driver, hyprun

boot.boot()

# pylint: disable=wrong-import-position
from hypothesis import settings, seed as hseed, strategies as st, Verbosity, HealthCheck
from hypothesis.stateful import RuleBasedStateMachine, rule, initialize, run_state_machine_as_test, precondition
from moPepGen import gtf, aa, dna, ERROR_INDEX_IN_INTRON
from moPepGen.gtf import GtfIO
from moPepGen.index import IndexDir
from moPepGen.SeqFeature import FeatureLocation
from moPepGen.gtf.GTFSeqFeature import GTFSeqFeature
import moPepGen.gtf.GTFPointer as GP

PROPERTY = 'C11'
ENGINE = 'gtf-store'
BUDGET_S = {'quick': 100, 'thorough': 1200}
CASE_TIMEOUT_S = 900
STUBS = []
PROBES = ['eviction', 'absent_key_lookup', 'absent_then_evict', 'idx_path', 'raw_path', 'rewrite',
          'cache_size_1', 'minus_strand_tx', 'sec_tx', 'demo_multi_isoform', 'invalid_protein_as_noncoding',
          'unversioned_lookup', 'non_ascii_gtf', 'corpus_real_reference', 'ensembl_dialect', 'gencode_extras',
          'recheck_protein_coding', 'two_chromosomes']
RULE = ('case = generated annotation (6-14 genes, both strands, Sec, NF tags) or the multi-isoform demo GTF; '
        'history = Hypothesis rule sequence (<=40 steps): lookups of present/absent keys in both pointer '
        'dicts, contains/len/iter, coordinate and sequence API calls, unversioned gene lookup, write->reparse, '
        'under cache sizes 1..12 and raw vs .idx construction; every step compared with the parsed model and '
        'the flat position list.  distinct = distinct (cache sizes, construction path, multiset of op kinds, '
        '#evictions, #absent lookups) over executed histories')
ASSUMPTIONS = [
    'reference model = GenomicAnnotation.dump_gtf of the same GTF through the compat layer GtfIO.parse',
    'check_protein_coding is applied at construction (as load_references does) and re-applied between accesses only '
    'with the same proteome and flag',
    'generated annotations never contain abutting exons; the demo GTF is used for store equivalence only',
]
DEMO = Path(__file__).resolve().parent.parent.parent / 'corpus' / 'demo'
ORIG_CACHE = (GP.GENE_DICT_CACHE_SIZE, GP.TX_DICT_CACHE_SIZE)
COMP = {'A': 'T', 'T': 'A', 'G': 'C', 'C': 'G', 'N': 'N'}


class Violation(Exception):
    def __init__(self, clause, signature, detail):
        super().__init__(f'{clause}: {signature}')
        self.clause, self.signature, self.detail = clause, signature, detail


def n_cases(tier):
    return 64 if tier == 'quick' else 4000


# ---------------------------------------------------------------------------------------------
# digests (structural equality)
# ---------------------------------------------------------------------------------------------

def digest_feature(f):
    attrs = tuple(sorted((k, tuple(v) if isinstance(v, list) else v) for k, v in f.attributes.items()))
    return (f.chrom, int(f.location.start), int(f.location.end), f.location.strand, f.type,
            getattr(f, 'frame', None), attrs)


TX_LISTS = ('cds', 'exon', 'utr', 'five_utr', 'three_utr', 'selenocysteine', 'start_codon', 'stop_codon')


def digest_tx(m):
    parts = []
    for n in TX_LISTS:
        parts.append((n, tuple(digest_feature(x) for x in getattr(m, n, []) or [])))
    return tuple(parts) + (('transcript', digest_feature(m.transcript)),
                           ('is_protein_coding', bool(m.is_protein_coding)),
                           ('ids', (m.transcript_id, m.gene_id, m.protein_id, m.gene_name, m.gene_type)))


def digest_gene(g):
    return (digest_feature(g), tuple(sorted(g.transcripts)))


def first_diff(a, b):
    for x, y in zip(a, b):
        if x != y:
            return str(x)[:200], str(y)[:200]
    return None


# ---------------------------------------------------------------------------------------------
# context: one annotation + reference model
# ---------------------------------------------------------------------------------------------

class Ctx:
    def __init__(self, texts, workdir, demo=False, proteome_mutation=None):
        self.dir = Path(workdir)
        self.dir.mkdir(parents=True, exist_ok=True)
        self.texts = texts
        self.demo = demo
        self.gen = 0
        self.gtf_path = self.dir / 'annotation.gtf'
        self.gtf_path.write_text(texts['gtf'])
        (self.dir / 'genome.fasta').write_text(texts['genome_fa'])
        (self.dir / 'proteome.fasta').write_text(texts['proteome_fa'])
        self.genome = dna.DNASeqDict()
        self.genome.dump_fasta(self.dir / 'genome.fasta')
        self.flats = {}

    def proteome(self):
        p = aa.AminoAcidSeqDict()
        p.dump_fasta(self.dir / 'proteome.fasta')
        return p

    def parse_model(self, path, flag, source):
        mem = gtf.GenomicAnnotation()
        mem.dump_gtf(path, source=source)
        mem.check_protein_coding(self.proteome(), flag)
        return mem

    def flat(self, mem, tx_id):
        key = (id(mem), tx_id)
        if key not in self.flats:
            m = mem.transcripts[tx_id]
            strand = m.transcript.strand
            out = []
            exons = m.exon if strand == 1 else list(reversed(m.exon))
            for e in exons:
                r = range(int(e.location.start), int(e.location.end))
                out += list(r) if strand == 1 else list(reversed(r))
            self.flats[key] = out
        return self.flats[key]


class Sim:
    """System (GenomicAnnotationOnDisk) + model (GenomicAnnotation), driven op by op."""
    def __init__(self, ctx):
        self.ctx = ctx
        self.disk = None
        self.mem = None
        self.tx = []
        self.genes = []
        self.stats = {'evictions': 0, 'absent': 0, 'absent_then_evict': 0, 'kinds': {}}
        self.absent_seen = False

    # ---- construction ------------------------------------------------------------------------
    def build_disk(self, path, via_idx, flag, source):
        ctx = self.ctx
        if via_idx:
            d = ctx.dir / f'idx{ctx.gen}'
            ctx.gen += 1
            if d.exists():
                shutil.rmtree(d)
            d.mkdir()
            idx = IndexDir(d)
            anno = idx.save_annotation(path, source=source, proteome=ctx.proteome(),
                                       invalid_protein_as_noncoding=flag, symlink=False)
            idx.metadata.source = anno.source
            idx.save_metadata()
            disk = IndexDir(d).load_annotation()
        else:
            disk = gtf.GenomicAnnotationOnDisk()
            disk.generate_index(path, source=source)
            disk.check_protein_coding(ctx.proteome(), flag)
        return disk

    def op_init(self, gene_cache, tx_cache, via_idx, flag, source):
        GP.GENE_DICT_CACHE_SIZE = gene_cache
        GP.TX_DICT_CACHE_SIZE = tx_cache
        self.cfg = (gene_cache, tx_cache, via_idx, flag, source)
        self.mem = self.ctx.parse_model(self.ctx.gtf_path, flag, source)
        self.disk = self.build_disk(self.ctx.gtf_path, via_idx, flag, source)
        self.tx = list(self.mem.transcripts.keys())
        self.genes = list(self.mem.genes.keys())

    # ---- helpers -----------------------------------------------------------------------------
    def _watch(self, which):
        d = self.disk.transcripts if which == 'tx' else self.disk.genes
        return set(getattr(d, '_cache', {}).keys())

    def _after(self, which, before):
        d = self.disk.transcripts if which == 'tx' else self.disk.genes
        now = set(getattr(d, '_cache', {}).keys())
        if before - now:
            self.stats['evictions'] += 1
            if self.absent_seen:
                self.stats['absent_then_evict'] += 1

    def _lookup(self, which, key):
        d = self.disk.transcripts if which == 'tx' else self.disk.genes
        before = self._watch(which)
        try:
            return d[key]
        finally:
            self._after(which, before)

    # ---- ops ---------------------------------------------------------------------------------
    def op_get(self, which, i):
        keys = self.tx if which == 'tx' else self.genes
        key = keys[i % len(keys)]
        try:
            got = self._lookup(which, key)
        except Exception as e:  # pylint: disable=broad-except
            raise Violation('store-lookup', f'store-lookup:{which}:raised:{type(e).__name__}',
                            {'key': key, 'exc': repr(e)[:200], 'config': self.cfg}) from e
        if which == 'tx':
            a, b = digest_tx(got), digest_tx(self.mem.transcripts[key])
        else:
            a, b = digest_gene(got), digest_gene(self.mem.genes[key])
        if a != b:
            raise Violation('store-equal', f'store-equal:{which}',
                            {'key': key, 'first_diff': first_diff(a, b), 'config': self.cfg})
        if which == 'tx' and not self.ctx.demo:
            self.check_tx_invariants(key, got, light=True)

    def op_absent(self, which, k):
        d = self.disk.transcripts if which == 'tx' else self.disk.genes
        self.stats['absent'] += 1
        self.absent_seen = True
        try:
            d[k]
        except KeyError:
            return
        except Exception as e:  # pylint: disable=broad-except
            raise Violation('store-absent', f'store-absent:{which}:{type(e).__name__}',
                            {'key': k, 'exc': repr(e)[:200]}) from e
        raise Violation('store-absent', f'store-absent:{which}:returned', {'key': k})

    def op_contains(self, which, i, absent):
        d = self.disk.transcripts if which == 'tx' else self.disk.genes
        m = self.mem.transcripts if which == 'tx' else self.mem.genes
        keys = self.tx if which == 'tx' else self.genes
        k = f'NOPE{i}' if absent else keys[i % len(keys)]
        if (k in d) != (k in m):
            raise Violation('store-contains', f'store-contains:{which}', {'key': k})

    def op_iter(self, which):
        d = self.disk.transcripts if which == 'tx' else self.disk.genes
        m = self.mem.transcripts if which == 'tx' else self.mem.genes
        if list(d) != list(m) or len(d) != len(m) or list(d.keys()) != list(m.keys()):
            raise Violation('store-iter', f'store-iter:{which}',
                            {'disk': list(d)[:5], 'model': list(m)[:5], 'len': (len(d), len(m))})
        if which == 'tx':
            if self.disk.get_transcript_rank() != self.mem.get_transcript_rank():
                raise Violation('store-iter', 'store-iter:tx-rank', {})
        elif self.disk.get_genes_rank() != self.mem.get_genes_rank():
            raise Violation('store-iter', 'store-iter:gene-rank', {})

    def _both(self, name, fn):
        """value-or-exception-class comparison between system and model"""
        res = []
        for anno in (self.disk, self.mem):
            try:
                res.append(('ok', fn(anno)))
            except Exception as e:  # pylint: disable=broad-except
                res.append(('exc', type(e).__name__, str(e)[:80] if isinstance(e, ValueError) else ''))
        if res[0] != res[1]:
            raise Violation('store-api', f'store-api:{name}',
                            {'disk': str(res[0])[:200], 'model': str(res[1])[:200], 'config': self.cfg})
        return res[1]

    def op_api(self, name, i, j, frac):
        tx = self.tx[i % len(self.tx)]
        tm = self.mem.transcripts[tx]
        gene = tm.transcript.gene_id
        gm = self.mem.genes[gene]
        glen = int(gm.location.end - gm.location.start)
        other_gene = self.genes[j % len(self.genes)]
        gpos = int(gm.location.start) + int(frac * (glen + 4)) - 2   # may fall just outside
        gidx = int(frac * (glen + 2)) - 1
        n_tx = sum(len(e.location) for e in tm.exon)
        tidx = int(frac * (n_tx + 2)) - 1
        if name == 'gene_to_transcript':
            self._both(name, lambda a: a.coordinate_gene_to_transcript(max(0, gidx), gene, tx))
        elif name == 'gene_to_transcript_other':
            self._both(name, lambda a: a.coordinate_gene_to_transcript(max(0, gidx), other_gene, tx))
        elif name == 'genomic_to_gene':
            self._both(name, lambda a: a.coordinate_genomic_to_gene(gpos, gene))
        elif name == 'gene_to_genomic':
            self._both(name, lambda a: a.coordinate_gene_to_genomic(max(0, gidx), gene))
        elif name == 'transcript_to_genomic':
            self._both(name, lambda a: a.coordinate_transcript_to_genomic(max(0, tidx), tx))
        elif name == 'tx_with_position':
            self._both(name, lambda a: sorted(m.transcript_id for m in a.get_transcripts_with_position(gene, gpos)))
        elif name == 'tx_with_exonic_position':
            self._both(name, lambda a: sorted(m.transcript_id
                                              for m in a.get_transcripts_with_exonic_position(gene, gpos)))
        elif name == 'find_exon_index':
            e = tm.exon[j % len(tm.exon)]
            feat = GTFSeqFeature(chrom=e.chrom, location=FeatureLocation(
                seqname=e.chrom, start=int(e.location.start), end=int(e.location.end), strand=e.location.strand),
                attributes={}, type='exon')
            self._both(name, lambda a: a.find_exon_index(tx, feat))
        elif name == 'tx_sequence':
            chrom = self.ctx.genome[tm.transcript.chrom]

            def f(a):
                m = a.transcripts[tx]
                s = m.get_transcript_sequence(chrom)
                return (str(s.seq), (int(s.orf.start), int(s.orf.end)) if s.orf else None,
                        [(int(x.start), int(x.end)) for x in s.selenocysteine])
            self._both(name, f)
        elif name == 'gene_sequence':
            chrom = self.ctx.genome[gm.chrom]
            self._both(name, lambda a: str(a.genes[gene].get_gene_sequence(chrom).seq))
        elif name == 'exons_of_gene':
            self._both(name, lambda a: [digest_feature(x) for x in a.get_all_exons_of_gene(gene)])
        elif name == 'unversioned':
            gid = gene.split('.')[0] if frac < 0.7 else f'NOPE{j % 3}'
            self.stats['unversioned'] = self.stats.get('unversioned', 0) + 1
            if gid.startswith('NOPE'):
                self.stats['absent'] += 1
                self.absent_seen = True
            self._both(name, lambda a: digest_gene(a.get_gene_model_from_unversioned_id(gid)))
        else:
            raise ValueError(name)

    def op_invariants(self, i):
        tx = self.tx[i % len(self.tx)]
        try:
            m = self._lookup('tx', tx)
        except Exception as e:  # pylint: disable=broad-except
            raise Violation('store-lookup', f'store-lookup:tx:raised:{type(e).__name__}',
                            {'key': tx, 'exc': repr(e)[:200], 'config': self.cfg}) from e
        if not self.ctx.demo:
            self.check_tx_invariants(tx, m, light=False)

    def check_tx_invariants(self, tx, m, light):
        """The 'mutually inverse / equal to the strand-corrected genome' half of C11, on the model the
        store just returned."""
        ctx = self.ctx
        flat = ctx.flat(self.mem, tx)
        strand = m.transcript.strand
        if strand == -1:
            self.stats['minus'] = 1
        disk = self.disk
        n = len(flat)
        if light:
            idxs = sorted({0, n - 1, n // 2, n // 3} | {k for e in range(1) for k in ()})
        else:
            # all exon boundaries + a spread of interior positions
            idxs = set()
            acc = 0
            exons = m.exon if strand == 1 else list(reversed(m.exon))
            for e in exons:
                L = len(e.location)
                idxs.update({acc, acc + L - 1})
                acc += L
            idxs.update(range(0, n, max(1, n // 60)))
            idxs = sorted(i for i in idxs if 0 <= i < n)
        chrom = ctx.genome[m.transcript.chrom]
        seq = m.get_transcript_sequence(chrom)
        if len(seq) != n:
            raise Violation('coord-length', 'coord-length', {'tx': tx, 'len_seq': len(seq), 'len_flat': n})
        for i in idxs:
            g = flat[i]
            try:
                a = disk.coordinate_transcript_to_genomic(i, tx)
                b = m.get_transcript_index(g)
            except Exception as e:  # pylint: disable=broad-except
                raise Violation('coord-inverse', f'coord-inverse:raised:{type(e).__name__}',
                                {'tx': tx, 'i': i, 'g': g, 'strand': strand, 'exc': str(e)[:100]}) from e
            if a != g or b != i:
                raise Violation('coord-inverse', f'coord-inverse:strand{strand}',
                                {'tx': tx, 'i': i, 'g': g, 'tx_to_genomic': a, 'genomic_to_tx': b})
            base = str(chrom.seq[g]).upper()
            base = base if strand == 1 else COMP[base]
            if str(seq.seq[i]).upper() != base:
                raise Violation('coord-sequence', f'coord-sequence:strand{strand}', {'tx': tx, 'i': i, 'g': g})
        if light:
            return
        fs = set(flat)
        lo, hi = int(m.transcript.location.start), int(m.transcript.location.end)
        intronic = [g for g in range(lo, hi) if g not in fs]
        step = max(1, len(intronic) // 40)
        probe = set(intronic[::step])
        for g in flat:
            for d in (-1, 1):
                if lo <= g + d < hi and g + d not in fs:
                    probe.add(g + d)
        for g in sorted(probe):
            try:
                r = m.get_transcript_index(g)
            except ValueError as e:
                if e.args and e.args[0] == ERROR_INDEX_IN_INTRON:
                    continue
                raise Violation('coord-intron', 'coord-intron:other-error',
                                {'tx': tx, 'g': g, 'err': str(e)[:100], 'strand': strand}) from e
            raise Violation('coord-intron', f'coord-intron:mapped:strand{strand}',
                            {'tx': tx, 'g': g, 'mapped_to': r})
        gid = m.transcript.gene_id
        gm = disk.genes[gid]
        L = int(gm.location.end - gm.location.start)
        for i in sorted({0, L - 1} | set(range(0, L, max(1, L // 50)))):
            g = disk.coordinate_gene_to_genomic(i, gid)
            exp = gm.location.start + i if gm.strand == 1 else gm.location.end - 1 - i
            if g != exp or disk.coordinate_genomic_to_gene(g, gid) != i:
                raise Violation('coord-gene', f'coord-gene:strand{gm.strand}', {'gene': gid, 'i': i, 'g': g})
            try:
                ti = disk.coordinate_gene_to_transcript(i, gid, tx)
                if g not in fs or flat[ti] != g:
                    raise Violation('coord-gene-tx', f'coord-gene-tx:strand{strand}',
                                    {'tx': tx, 'i': i, 'g': g, 'ti': ti})
            except ValueError as e:
                if g in fs:
                    raise Violation('coord-gene-tx', f'coord-gene-tx:rejected-exonic:strand{strand}',
                                    {'tx': tx, 'i': i, 'g': g, 'err': str(e)[:80]}) from e
        gseq = str(gm.get_gene_sequence(ctx.genome[gm.chrom]).seq).upper()
        raw = str(ctx.genome[gm.chrom].seq[int(gm.location.start):int(gm.location.end)]).upper()
        exp = raw if gm.strand == 1 else ''.join(COMP[c] for c in reversed(raw))
        if gseq != exp:
            raise Violation('coord-sequence', f'coord-sequence:gene:strand{gm.strand}', {'gene': gid})
        if m.cds:
            if strand == 1:
                first = int(m.cds[0].location.start) + (m.cds[0].frame or 0)
                pos = flat.index(int(m.cds[0].location.start)) + (m.cds[0].frame or 0)
            else:
                pos = flat.index(int(m.cds[-1].location.end) - 1) + (m.cds[-1].frame or 0)
            if seq.orf is None or int(seq.orf.start) != pos:
                raise Violation('coord-orf', f'coord-orf:start:strand{strand}',
                                {'tx': tx, 'orf': str(seq.orf), 'expected_start': pos})
            if (int(seq.orf.end) - int(seq.orf.start)) % 3 != 0 or int(seq.orf.end) > n:
                raise Violation('coord-orf', f'coord-orf:end:strand{strand}', {'tx': tx, 'orf': str(seq.orf)})
            # the ORF ends where the 3'UTR begins (first 3'UTR base in transcript orientation, whatever the order
            # and number of the 3'UTR records), else at the transcript end; rounded down to the reading frame
            if m.three_utr:
                idx3 = []
                for u in m.three_utr:
                    first = int(u.location.start) if strand == 1 else int(u.location.end) - 1
                    if first in fs:
                        idx3.append(flat.index(first))
                lim = min(idx3) if idx3 else n
            else:
                lim = n
            exp_end = lim - (lim - pos) % 3
            if int(seq.orf.end) != exp_end:
                raise Violation('coord-orf', f'coord-orf:end-vs-3utr:strand{strand}',
                                {'tx': tx, 'orf': str(seq.orf), 'expected_end': exp_end,
                                 'three_utr': [(int(u.location.start), int(u.location.end)) for u in m.three_utr]})
        if m.selenocysteine:
            self.stats['sec'] = 1
            exp = []
            for sec in m.selenocysteine:
                first = int(sec.location.start) if strand == 1 else int(sec.location.end) - 1
                exp.append((flat.index(first), flat.index(first) + 3))
            got = [(int(x.start), int(x.end)) for x in seq.selenocysteine]
            if sorted(exp) != got:
                raise Violation('coord-sec', f'coord-sec:strand{strand}', {'tx': tx, 'expected': exp, 'got': got})

    def op_recheck(self):
        """check_protein_coding applied again with the same proteome and flag (idempotent by definition): the
        store must go on serving the same models."""
        _, _, _, flag, _ = self.cfg
        self.disk.check_protein_coding(self.ctx.proteome(), flag)
        self.mem.check_protein_coding(self.ctx.proteome(), flag)
        self.stats['recheck'] = self.stats.get('recheck', 0) + 1

    def op_rewrite(self, via_idx):
        ctx = self.ctx
        path = ctx.dir / f'rewritten{ctx.gen}.gtf'
        ctx.gen += 1
        with open(path, 'wt') as h:
            GtfIO.write(h, self.mem)
        _, _, _, flag, source = self.cfg
        # (a) plain parse of what was written: every model, including the coding status the writer records,
        # must come back as it was (no proteome is consulted here)
        raw = gtf.GenomicAnnotation()
        raw.dump_gtf(path, source=source)
        for t in self.mem.transcripts:
            if t not in raw.transcripts:
                raise Violation('gtf-roundtrip', 'gtf-roundtrip:keys', {'missing_tx': t})
            a, b = digest_tx(self.mem.transcripts[t]), digest_tx(raw.transcripts[t])
            if a != b or raw.transcripts[t].is_protein_coding is not self.mem.transcripts[t].is_protein_coding:
                raise Violation('gtf-roundtrip', 'gtf-roundtrip:plain-parse',
                                {'tx': t, 'first_diff': first_diff(a, b),
                                 'is_protein_coding': (repr(self.mem.transcripts[t].is_protein_coding),
                                                       repr(raw.transcripts[t].is_protein_coding))})
        # (b) the parse + check_protein_coding path used by the commands
        mem2 = ctx.parse_model(path, flag, source)
        if list(mem2.genes) != list(self.mem.genes) or list(mem2.transcripts) != list(self.mem.transcripts):
            raise Violation('gtf-roundtrip', 'gtf-roundtrip:keys',
                            {'genes': (len(mem2.genes), len(self.mem.genes)),
                             'tx': (len(mem2.transcripts), len(self.mem.transcripts))})
        for t in self.mem.transcripts:
            a, b = digest_tx(self.mem.transcripts[t]), digest_tx(mem2.transcripts[t])
            if a != b:
                raise Violation('gtf-roundtrip', 'gtf-roundtrip:tx', {'tx': t, 'first_diff': first_diff(a, b)})
        for g in self.mem.genes:
            a, b = digest_gene(self.mem.genes[g]), digest_gene(mem2.genes[g])
            if a != b:
                raise Violation('gtf-roundtrip', 'gtf-roundtrip:gene', {'gene': g, 'first_diff': first_diff(a, b)})
        self.disk = self.build_disk(path, via_idx, flag, source)
        self.cfg = self.cfg[:2] + (via_idx,) + self.cfg[3:]
        self.stats['rewrite'] = self.stats.get('rewrite', 0) + 1

    def apply(self, op):
        kind = op[0]
        self.stats['kinds'][kind] = self.stats['kinds'].get(kind, 0) + 1
        getattr(self, 'op_' + kind)(*op[1:])


API_NAMES = ['gene_to_transcript', 'gene_to_transcript_other', 'genomic_to_gene', 'gene_to_genomic',
             'transcript_to_genomic', 'tx_with_position', 'tx_with_exonic_position', 'find_exon_index',
             'tx_sequence', 'gene_sequence', 'exons_of_gene', 'unversioned']


def apply_ops(ctx, ops):
    """Replay interpreter.  Raises Violation."""
    sim = Sim(ctx)
    try:
        for op in ops:
            sim.apply(tuple(op))
    finally:
        GP.GENE_DICT_CACHE_SIZE, GP.TX_DICT_CACHE_SIZE = ORIG_CACHE
    return sim


def make_machine(ctx, trace_box, stats_box, sources, log=None):
    log = log or hyprun.HistoryLog()
    which = st.sampled_from(['tx', 'gene'])
    idx = st.integers(0, 40)

    class Machine(RuleBasedStateMachine):
        def __init__(self):
            super().__init__()
            self.sim = Sim(ctx)
            self.trace = log.new_trace()
            trace_box[0] = self.trace
            stats_box.append(self.sim.stats)
            self.ready = False

        def do(self, op):
            self.trace.append(list(op))
            try:
                self.sim.apply(op)
            except Violation as v:
                log.note(v)
                raise

        @initialize(gs=st.integers(1, 12), ts=st.integers(1, 12), via_idx=st.booleans(), flag=st.booleans(),
                    source=st.sampled_from(sources))
        def init(self, gs, ts, via_idx, flag, source):
            self.do(('init', gs, ts, via_idx, flag, source))
            self.sim.stats['cfg'] = (gs, ts, via_idx, flag, source)

        @rule(w=which, i=idx)
        def get(self, w, i):
            self.do(('get', w, i))

        @rule(w=which, i=idx)
        def get_again(self, w, i):
            self.do(('get', w, i))
            self.do(('get', w, i))

        @rule(w=which, k=st.sampled_from(['NOPE1', 'NOPE2', '']))
        def absent(self, w, k):
            self.do(('absent', w, k))

        @rule(w=which, i=idx, absent=st.booleans())
        def contains(self, w, i, absent):
            self.do(('contains', w, i, absent))

        @rule(w=which)
        def iterate(self, w):
            self.do(('iter', w))

        @rule(name=st.sampled_from(API_NAMES), i=idx, j=idx, frac=st.floats(0, 1))
        def api(self, name, i, j, frac):
            self.do(('api', name, i, j, round(frac, 4)))

        @rule(i=idx)
        def invariants(self, i):
            self.do(('invariants', i))

        @rule()
        def recheck(self):
            self.do(('recheck',))

        @rule(via_idx=st.booleans())
        def rewrite(self, via_idx):
            self.do(('rewrite', via_idx))

        def teardown(self):
            GP.GENE_DICT_CACHE_SIZE, GP.TX_DICT_CACHE_SIZE = ORIG_CACHE
    return Machine


NON_ASCII_NAMES = ['TR\u03b1', '\u0394Np63', 'na\u00efve', 'IL-1\u03b2', '\u9577\u3044']


def add_non_ascii(rng, gtf_text):
    """Multi-byte UTF-8 in a GTF is legal (gene names, comment lines) and makes byte offsets differ from
    character offsets: the pointers are byte ranges into the file."""
    genes = sorted({f.split()[1].strip('";') for l in gtf_text.splitlines() if not l.startswith('#')
                    for f in l.split('\t')[8].split(';') if f.strip().startswith('gene_id ')})
    chosen = {g: rng.choice(NON_ASCII_NAMES) + g[-3:] for g in genes if rng.random() < 0.5}
    out = []
    if rng.random() < 0.6:
        out.append('##provider: Universit\u00e9 \u00a9 2024 \u2014 annotation')
    for l in gtf_text.splitlines():
        if not l.startswith('#'):
            for g, name in chosen.items():
                if f'gene_id {g};' in l or f'gene_id "{g}";' in l:
                    l = l.rstrip()
                    l = (l if l.endswith(';') else l + ';') + f' gene_name {name};'
                    break
        out.append(l)
    return '\n'.join(out) + '\n'


def ensembl_dialect(rng, gtf_text):
    """The same annotation in the dialect Ensembl writes: typed ``five_prime_utr`` / ``three_prime_utr`` records
    instead of ``UTR``, a UTR possibly in several pieces, and the records of a minus-strand transcript listed in
    transcript order (descending coordinates).  Only the representation changes."""
    out, block = [], []

    def flush():
        if not block:
            return
        cds = [(int(f[3]), int(f[4])) for f in block if f[2] == 'CDS']
        strand = block[0][6]
        body = []
        for f in block:
            if f[2] == 'UTR' and cds:
                lo, hi = min(c[0] for c in cds), max(c[1] for c in cds)
                a, b = int(f[3]), int(f[4])
                three = (a > hi) if strand == '+' else (b < lo)
                typ = 'three_prime_utr' if three else 'five_prime_utr'
                pieces = [(a, b)]
                if b - a >= 3 and rng.random() < 0.6:
                    cut = rng.randint(a, b - 1)
                    pieces = [(a, cut), (cut + 1, b)]
                for x, y in pieces:
                    body.append(f[:2] + [typ, str(x), str(y)] + f[5:])
            else:
                body.append(f)
        head = [f for f in body if f[2] == 'transcript']
        rest = [f for f in body if f[2] != 'transcript']
        if strand == '-' and rng.random() < 0.6:
            rest.sort(key=lambda f: -int(f[3]))
        out.extend('\t'.join(f) for f in head + rest)
        block.clear()
    for line in gtf_text.splitlines():
        if not line or line.startswith('#'):
            flush()
            out.append(line)
            continue
        f = line.split('\t')
        if f[2] in ('gene', 'transcript'):
            flush()
        if f[2] == 'gene':
            out.append(line)
        else:
            block.append(f)
    flush()
    return '\n'.join(out) + '\n'


def gencode_extras(rng, gtf_text):
    """What a GENCODE GTF has and the generated ones lack: several isoforms per gene (here: a second transcript with
    the same structure under another id, non-coding because the proteome does not list it) and start_codon /
    stop_codon records.  Only adds records; the existing models are unchanged."""
    lines = gtf_text.splitlines()
    blocks, cur = [], None           # [gene line or None, [transcript blocks]]
    out = []
    tx_block = []

    def emit(block):
        if not block:
            return
        f0 = block[0].split('\t')
        strand = f0[6]
        cds = sorted((int(l.split('\t')[3]), int(l.split('\t')[4])) for l in block if l.split('\t')[2] == 'CDS')
        extra = []
        if cds and rng.random() < 0.6:
            attrs = f0[8]
            attrs = attrs.replace(' is_protein_coding true;', '').replace(' is_protein_coding false;', '')
            if strand == '+' and cds[0][1] - cds[0][0] >= 2:
                extra.append('\t'.join(f0[:2] + ['start_codon', str(cds[0][0]), str(cds[0][0] + 2)] + f0[5:8] + [attrs]))
            elif strand == '-' and cds[-1][1] - cds[-1][0] >= 2:
                extra.append('\t'.join(f0[:2] + ['start_codon', str(cds[-1][1] - 2), str(cds[-1][1])] + f0[5:8] + [attrs]))
        out.extend(block + extra)
        if rng.random() < 0.35:
            # second isoform: same records under a new transcript / protein id
            tid = None
            for a in f0[8].split(';'):
                a = a.strip()
                if a.startswith('transcript_id '):
                    tid = a.split(' ', 1)[1].strip('"')
            if tid:
                if not tid[-1].isdigit():
                    new = tid + 'b'
                elif tid[5] in '01234':
                    new = tid[:5] + str(int(tid[5]) + 5) + tid[6:]      # FAKET0.. -> FAKET5.., FAKET1.. -> FAKET6..
                else:
                    new = tid
                if new != tid:
                    out.extend(l.replace(tid, new).replace(tid.replace('FAKET', 'FAKEP'), new.replace('FAKET', 'FAKEP'))
                               .replace(' is_protein_coding true;', ' is_protein_coding false;') for l in block + extra)
    for l in lines:
        if not l or l.startswith('#'):
            emit(tx_block)
            tx_block = []
            out.append(l)
            continue
        t = l.split('\t')[2]
        if t == 'gene':
            emit(tx_block)
            tx_block = []
            out.append(l)
        elif t == 'transcript':
            emit(tx_block)
            tx_block = [l]
        else:
            tx_block.append(l)
    emit(tx_block)
    return '\n'.join(out) + '\n'


def case_texts(seed, idx):
    rng = R.case_rng(seed, ENGINE, idx)
    u = rng.random()
    demo = u < 0.3
    if u < 0.12:
        texts = {'gtf': (DEMO / 'annotation.gtf').read_text(), 'genome_fa': (DEMO / 'genome.fasta').read_text(),
                 'proteome_fa': (DEMO / 'translate.fasta').read_text()}
    elif demo:
        # a downsampled real reference from the corpus (real exon layouts; may contain abutting exons, hence used
        # like the demo GTF for the store-equivalence rules only)
        e = rng.choice(cvcase.corpus_entries()[:-1])
        texts = {'gtf': (e['ref'] / 'annotation.gtf').read_text(), 'genome_fa': (e['ref'] / 'genome.fasta').read_text(),
                 'proteome_fa': (e['ref'] / e['proteome']).read_text()}
    else:
        if rng.random() < 0.2:
            # two chromosomes, every gene with a paralog copy on the second one, some genes with two isoforms
            texts, _, _, _ = workload.gen_paralog_reference(rng, rng.randint(3, 7))
            texts = dict(texts, two_chromosomes=True)
        else:
            texts, _, _ = workload.gen_reference(rng, rng.randint(6, 14))
        # make the proteome interesting for check_protein_coding: drop one entry, put a '*' into another
        recs = texts['proteome_fa'].split('>')[1:]
        if len(recs) >= 3:
            k = rng.randrange(len(recs))
            recs.pop(k)
            j = rng.randrange(len(recs))
            head, _, body = recs[j].partition('\n')
            body = body.replace('\n', '')
            cut = rng.randrange(2, max(3, len(body) - 1))
            body = body[:cut] + '*' + body[cut + 1:]
            recs[j] = head + '\n' + body + '\n'
            texts = dict(texts, proteome_fa=''.join('>' + r for r in recs))
        if rng.random() < 0.4:
            texts = dict(texts, gtf=add_non_ascii(rng, texts['gtf']), non_ascii=True)
    if not demo and rng.random() < 0.4:
        texts = dict(texts, gtf=gencode_extras(rng, texts['gtf']), gencode_extras=True)
    if rng.random() < 0.35:
        texts = dict(texts, gtf=ensembl_dialect(rng, texts['gtf']), ensembl_dialect=True)
    if rng.random() < 0.12:
        texts = dict(texts, gtf=texts['gtf'].rstrip('\n'), no_final_newline=True)    # last line not newline-terminated
    return texts, demo, rng


def run_case(seed, task, tier):
    idx = task['case']
    texts, demo, rng = case_texts(seed, idx)
    out = {'executions': 0, 'signatures': [], 'violations': [], 'probes': {}, 'faults': {}, 'steps': 0}
    n_examples = 30 if tier == 'quick' else 60
    trace_box = [None]
    stats_box = []
    with cvcase.Scratch('c11_') as wd:
        ctx = Ctx(texts, wd, demo=demo)
        sources = [None] if demo else [None, 'GENCODE', 'ENSEMBL']
        log = hyprun.HistoryLog()
        machine = make_machine(ctx, trace_box, stats_box, sources, log)
        hs = R.derive(seed, ENGINE, idx, 'hyp') % (2 ** 32)
        viol = None
        try:
            res = hyprun.run(machine, hs, n_examples, 40, log, Violation)
            if res is not None:
                viol_kind, viol = res
        finally:
            GP.GENE_DICT_CACHE_SIZE, GP.TX_DICT_CACHE_SIZE = ORIG_CACHE
        if viol is not None:
            rep = {'property': PROPERTY, 'engine': ENGINE, 'clause': viol.clause, 'signature': viol.signature,
                   'detail': viol.detail, 'seed': seed, 'case': idx, 'hclass': task['hclass'],
                   'hashseed': driver.HASH_CLASSES[task['hclass']], 'texts': texts, 'demo': demo}
            rep.update(hyprun.report_fields(viol_kind, log, trace_box[0]))
            rep['digest'] = R.digest([seed, idx, viol.clause, rep['ops']])
            out['violations'].append(rep)
    probes = out['probes']
    for s in stats_box:
        out['executions'] += 1
        out['steps'] += sum(s['kinds'].values())
        cfg = s.get('cfg')
        if cfg is None:
            continue
        out['signatures'].append({'cfg': cfg, 'kinds': sorted(s['kinds'].items()), 'ev': s['evictions'],
                                  'absent': s['absent']})
        for k, p in (('evictions', 'eviction'), ('absent', 'absent_key_lookup'),
                     ('absent_then_evict', 'absent_then_evict'), ('rewrite', 'rewrite'), ('minus', 'minus_strand_tx'),
                     ('sec', 'sec_tx'), ('unversioned', 'unversioned_lookup'), ('recheck', 'recheck_protein_coding')):
            if s.get(k):
                probes[p] = probes.get(p, 0) + 1
        probes['idx_path' if cfg[2] else 'raw_path'] = probes.get('idx_path' if cfg[2] else 'raw_path', 0) + 1
        if cfg[0] == 1 or cfg[1] == 1:
            probes['cache_size_1'] = probes.get('cache_size_1', 0) + 1
        if cfg[3]:
            probes['invalid_protein_as_noncoding'] = probes.get('invalid_protein_as_noncoding', 0) + 1
        if demo:
            probes['demo_multi_isoform'] = probes.get('demo_multi_isoform', 0) + 1
            if 'FAKE' not in texts['gtf'][:2000] and 'ENST00000614167' not in texts['gtf']:
                probes['corpus_real_reference'] = probes.get('corpus_real_reference', 0) + 1
        if texts.get('non_ascii'):
            probes['non_ascii_gtf'] = probes.get('non_ascii_gtf', 0) + 1
        if texts.get('ensembl_dialect'):
            probes['ensembl_dialect'] = probes.get('ensembl_dialect', 0) + 1
        if texts.get('gencode_extras'):
            probes['gencode_extras'] = probes.get('gencode_extras', 0) + 1
        if texts.get('two_chromosomes'):
            probes['two_chromosomes'] = probes.get('two_chromosomes', 0) + 1
    if stats_box:
        out['sample'] = {'case': idx, 'demo': demo, 'n_histories': len(stats_box),
                         'last_history': trace_box[0][:40] if trace_box[0] else None}
    return out


def replay(rep):
    with cvcase.Scratch('c11r_') as wd:
        ctx = Ctx(rep['texts'], wd, demo=rep.get('demo', False))
        v = hyprun.replay_with_histories(rep, lambda ops: apply_ops(ctx, ops), Violation)
        if v is not None:
            return [dict(rep, clause=v.clause, signature=v.signature, detail=v.detail)]
    return []


def shrink_candidates(rep):
    ops = rep['ops']
    for i in range(len(ops) - 1, 0, -1):
        yield dict(rep, ops=ops[:i] + ops[i + 1:], histories=None)
