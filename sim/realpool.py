"""Stub calibration: run one callVariant input through the REAL pathos pool (real worker processes, dill
transport, OS scheduling) and report its peptide-sequence set, so that SimPool's result for the same input can be
compared with it.  Informational only (DESIGN 3.2): the real pool's scheduling is not ours to decide, so nothing
here is a verdict; the comparison is written to the evidence file as ``stub_calibration``.

Run as a script in a fresh interpreter:  realpool.py <case.json> <threads> <out.json>
The compat layer L0 reaches the pathos workers through a generated ``sitecustomize`` on PYTHONPATH.
"""
import json
import os
import subprocess
import sys
import tempfile
from pathlib import Path

VERIF = Path(__file__).resolve().parent.parent

SITECUSTOMIZE = '''
import os, sys
sys.path.insert(0, os.environ.get('VERIF_REPO', '/repo'))
sys.path.insert(1, %r)
try:
    from sim import boot as _b
    _b._ensure_path()
    import moPepGen as _m
    _b._install_compat()
    import logging as _l
    _l.getLogger('moPepGen').disabled = True
except Exception as _e:  # pragma: no cover
    sys.stderr.write('sitecustomize: %%r\\n' %% (_e,))
''' % str(VERIF)


def run_real(case, threads, timeout=600):
    """Returns {'ok': bool, 'seqs': [...]} or {'ok': False, 'error': ...}."""
    with tempfile.TemporaryDirectory(prefix='realpool_', dir=os.environ.get('VERIF_SCRATCH') or None) as d:
        d = Path(d)
        (d / 'site').mkdir()
        (d / 'site' / 'sitecustomize.py').write_text(SITECUSTOMIZE)
        (d / 'case.json').write_text(json.dumps(case))
        env = dict(os.environ)
        env['PYTHONPATH'] = f"{d / 'site'}{os.pathsep}{VERIF}"
        env['PYTHONHASHSEED'] = '0'
        env['VERIF_SCRATCH'] = str(d)
        try:
            p = subprocess.run([sys.executable, str(Path(__file__).resolve()), str(d / 'case.json'), str(threads),
                                str(d / 'out.json')], env=env, capture_output=True, text=True, timeout=timeout,
                               cwd=str(d))
        except subprocess.TimeoutExpired:
            return {'ok': False, 'error': 'timeout'}
        if not (d / 'out.json').exists():
            return {'ok': False, 'error': (p.stderr or '')[-600:]}
        return json.loads((d / 'out.json').read_text())


def _child(case_file, threads, out_file):
    sys.path.insert(0, str(VERIF))
    from sim import boot
    boot.boot(order_seam=False)       # real identity hashes, real uuid4: nothing but L0 is altered
    import contextlib
    import io
    from sim import cvcase, cvrun
    case = json.loads(Path(case_file).read_text())
    wd = Path(case_file).parent / 'work'
    ref, files, out = cvcase.materialise(case, cvcase.reference_layout(case), wd, 'real')
    args = cvrun.make_args(ref, files, out, dict(case['config'], threads=int(threads)))
    res = {'ok': False}
    try:
        with contextlib.redirect_stdout(io.StringIO()), contextlib.redirect_stderr(io.StringIO()):
            cvrun.cvp.call_variant_peptide(args)
        fasta, _ = cvrun.parse_fasta(out)
        res = {'ok': True, 'seqs': sorted(fasta)}
    except SystemExit as e:
        res = {'ok': False, 'error': f'SystemExit {e.code}'}
    except Exception as e:  # pylint: disable=broad-except
        res = {'ok': False, 'error': f'{type(e).__name__}: {str(e)[:300]}'}
    Path(out_file).write_text(json.dumps(res))


if __name__ == '__main__':
    _child(*sys.argv[1:4])
    sys.stdout.flush()
    os._exit(0)  # pylint: disable=protected-access
