"""One integer decides everything: per-case PRNGs are derived by hashing, never by sharing a stream."""
import hashlib
import random

HASH_CLASSES = (0, 1, 2654435769 % 4294967295, 4242424242)   # explicit PYTHONHASHSEED per worker class


def derive(seed, *parts):
    h = hashlib.sha256(('|'.join([str(seed)] + [str(p) for p in parts])).encode()).digest()
    return int.from_bytes(h[:8], 'big')


def case_rng(seed, engine, case, stream='main'):
    return random.Random(derive(seed, engine, case, stream))


def digest(obj):
    """Stable digest of a JSON-like object."""
    import json
    return hashlib.sha256(json.dumps(obj, sort_keys=True, default=str).encode()).hexdigest()[:16]
