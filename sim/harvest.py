"""Harvest in-memory records exactly as the seven real parsers emit them (demo tool outputs), by
intercepting the arguments of seqvar.io.write / circ.io.write."""
import argparse
import contextlib
import io
import sys
import tempfile
from pathlib import Path

from sim import boot

boot.boot()

# pylint: disable=wrong-import-position
import moPepGen.cli.parse_vep  # noqa
import moPepGen.cli.parse_reditools  # noqa
import moPepGen.cli.parse_star_fusion  # noqa
import moPepGen.cli.parse_arriba  # noqa
import moPepGen.cli.parse_fusion_catcher  # noqa
import moPepGen.cli.parse_rmats  # noqa
import moPepGen.cli.parse_circexplorer  # noqa
from moPepGen import seqvar, circ

DEMO = Path(__file__).resolve().parent.parent / 'corpus' / 'demo'


def _base(command, source, out):
    return dict(command=command, source=source, index_dir=None, genome_fasta=DEMO / 'genome.fasta',
                annotation_gtf=DEMO / 'annotation.gtf', proteome_fasta=DEMO / 'translate.fasta',
                reference_source=None, output_path=out, quiet=True, skip_failed=False, debug_level=1)


def harvest():
    """Returns {'variant': [VariantRecord...], 'circ': [CircRNAModel...]} and a per-parser count."""
    got = {'variant': [], 'circ': []}
    counts = {}
    orig_v, orig_c = seqvar.io.write, circ.io.write

    def wv(variants, output_path, metadata):
        got['variant'].extend(list(variants))

    def wc(records, metadata, handle):
        got['circ'].extend(list(records))
    seqvar.io.write, circ.io.write = wv, wc
    tmp = Path(tempfile.mkdtemp(prefix='harvest_'))
    try:
        jobs = [
            ('moPepGen.cli.parse_vep', 'parse_vep', dict(_base('parseVEP', 'gSNP', tmp / 'a.gvf'),
             input_path=[DEMO / 'vep/vep_snp.txt', DEMO / 'vep/vep_indel.txt'])),
            ('moPepGen.cli.parse_reditools', 'parse_reditools',
             dict(_base('parseREDItools', 'RNAEditingSite', tmp / 'b.gvf'),
                  input_path=DEMO / 'reditools/reditools_annotated.txt', transcript_id_column=17,
                  min_coverage_alt=3, min_frequency_alt=0.1, min_coverage_rna=10, min_coverage_dna=10)),
            ('moPepGen.cli.parse_star_fusion', 'parse_star_fusion',
             dict(_base('parseSTARFusion', 'Fusion', tmp / 'c.gvf'), input_path=DEMO / 'fusion/star_fusion.txt',
                  min_est_j=3.0)),
            ('moPepGen.cli.parse_arriba', 'parse_arriba',
             dict(_base('parseArriba', 'Fusion', tmp / 'd.gvf'), input_path=DEMO / 'fusion/arriba.txt',
                  min_split_read1=1, min_split_read2=1, min_confidence='medium')),
            ('moPepGen.cli.parse_fusion_catcher', 'parse_fusion_catcher',
             dict(_base('parseFusionCatcher', 'Fusion', tmp / 'e.gvf'),
                  input_path=DEMO / 'fusion/fusion_catcher.txt', max_common_mapping=0, min_spanning_unique=5)),
            ('moPepGen.cli.parse_rmats', 'parse_rmats',
             dict(_base('parseRMATS', 'AlternativeSplicing', tmp / 'f.gvf'),
                  skipped_exon=DEMO / 'alternative_splicing/rmats_se_case_1.SE.JC.txt',
                  alternative_5_splicing=DEMO / 'alternative_splicing/rmats_a5ss_case_1.A5SS.JC.txt',
                  alternative_3_splicing=DEMO / 'alternative_splicing/rmats_a3ss_case_1.A3SS.JC.txt',
                  mutually_exclusive_exons=DEMO / 'alternative_splicing/rmats_mxe_case_1.MXE.JC.txt',
                  retained_intron=DEMO / 'alternative_splicing/rmats_ri_case_1.RI.JC.txt', min_sjc=1, min_ijc=1)),
            ('moPepGen.cli.parse_circexplorer', 'parse_circexplorer',
             dict(_base('parseCIRCexplorer', 'circRNA', tmp / 'g.gvf'),
                  input_path=DEMO / 'circRNA/CIRCexplorer_circularRNA_known.txt', circexplorer3=False,
                  min_read_number=1, min_fbr_circ=None, min_circ_score=None, intron_start_range='-2,0',
                  intron_end_range='-100,2')),
        ]
        for mod, func, kw in jobs:
            before = len(got['variant']) + len(got['circ'])
            try:
                with contextlib.redirect_stdout(io.StringIO()), contextlib.redirect_stderr(io.StringIO()):
                    getattr(sys.modules[mod], func)(argparse.Namespace(**kw))
            except BaseException as e:  # pylint: disable=broad-except
                counts[func + ':error'] = f'{type(e).__name__}: {str(e)[:80]}'
            counts[func] = len(got['variant']) + len(got['circ']) - before
    finally:
        seqvar.io.write, circ.io.write = orig_v, orig_c
        import shutil
        shutil.rmtree(tmp, ignore_errors=True)
    return got, counts
