"""Determinism and sensitivity self-test (``./check selftest``).

1. every engine, a few cases, run twice in different fresh interpreters with 16 and with 4 worker processes:
   the per-case results (derived parameters, batch logs, fire sites, line counts, peptide digests, store
   results) must be identical -- placement independence and run-to-run determinism in one comparison;
2. the same with the driver's own PYTHONHASHSEED changed (worker hash seeds are explicit and must not move);
3. (thorough tier) sensitivity: four in-memory mutants must each produce a VIOLATION whose minimised replay
   fails again in a fresh interpreter.
A mismatch is exit 2 (harness unsound), never a property verdict.
"""
import json
import os
import shutil
import subprocess
import sys
import tempfile
import time
from pathlib import Path

from sim import driver, rng as R

CASES = {'quick': {'C02': 4, 'C04': 8, 'C06': 4, 'C07': 8, 'C11': 8, 'C12': 8, 'C13': 8, 'C20': 16},
         'thorough': {'C02': 8, 'C04': 16, 'C06': 12, 'C07': 16, 'C11': 32, 'C12': 32, 'C13': 32, 'C20': 64}}


def strip(r):
    r = dict(r)
    r.pop('task', None)
    return r


def run_once(pid, seed, n, workers, env_extra=None):
    eng = driver.load_engine(pid)
    tasks = eng.tasks(seed, 'quick', n) if hasattr(eng, 'tasks') else driver.default_tasks(n)
    scratch = Path(tempfile.mkdtemp(prefix=f'selftest_{pid}_', dir=os.environ.get('VERIF_SCRATCH')))
    old = os.environ.get('VERIF_WORKERS')
    os.environ['VERIF_WORKERS'] = str(workers)
    saved = {}
    for k, v in (env_extra or {}).items():
        saved[k] = os.environ.get(k)
        os.environ[k] = v
    try:
        results, _ = driver.run_workers(pid, seed, 'quick', tasks, scratch, 3600, getattr(eng, 'CASE_TIMEOUT_S', 600))
    finally:
        shutil.rmtree(scratch, ignore_errors=True)
        if old is None:
            os.environ.pop('VERIF_WORKERS', None)
        else:
            os.environ['VERIF_WORKERS'] = old
        for k, v in saved.items():
            if v is None:
                os.environ.pop(k, None)
            else:
                os.environ[k] = v
    return {(r['task']['case'], r['task']['mode']): R.digest(strip(r)) for r in results}, results


def determinism(seed, tier):
    bad = 0
    for pid, n in sorted(CASES[tier].items()):
        t0 = time.time()
        a, ra = run_once(pid, seed, n, 16)
        b, rb = run_once(pid, seed, n, 4)
        diff = sorted(k for k in set(a) | set(b) if a.get(k) != b.get(k))
        status = 'ok' if not diff else f'MISMATCH {diff[:5]}'
        print(f'selftest determinism {pid}: {len(a)} tasks, 16 vs 4 worker processes: {status} '
              f'({time.time() - t0:.0f}s)', flush=True)
        if diff:
            bad += 1
            k = diff[0]
            xa = [r for r in ra if (r['task']['case'], r['task']['mode']) == k]
            xb = [r for r in rb if (r['task']['case'], r['task']['mode']) == k]
            if xa and xb:
                for key in sorted(set(xa[0]) | set(xb[0])):
                    if key != 'task' and xa[0].get(key) != xb[0].get(key):
                        print(f'  first differing field of task {k}: {key}\n    A={str(xa[0].get(key))[:300]}\n'
                              f'    B={str(xb[0].get(key))[:300]}', flush=True)
                        break
    return bad


def sensitivity(seed):
    from sim import mutants
    bad = 0
    for name, (_, _, _, pid) in sorted(mutants.MUTANTS.items()):
        t0 = time.time()
        env = dict(os.environ, VERIF_MUTANT=name, VERIF_SEED=str(seed), VERIF_CASES='24',
                   VERIF_NO_EVIDENCE='1', PYTHONHASHSEED='0')
        p = subprocess.run([sys.executable, str(driver.VERIF / 'sim' / 'driver.py'), pid, '--tier', 'quick'],
                           env=env, capture_output=True, text=True, cwd=str(driver.VERIF), timeout=3000)
        lines = [l for l in p.stdout.splitlines() if l.startswith('VIOLATION ')]
        ok = p.returncode == 1 and lines
        print(f'selftest sensitivity mutant={name} property={pid}: '
              f'{"detected, replay reproduced" if ok else "NOT DETECTED rc=%s" % p.returncode} '
              f'({time.time() - t0:.0f}s)', flush=True)
        if not ok:
            bad += 1
            print(p.stdout[-1500:], p.stderr[-1500:])
        else:
            for l in lines:
                f = Path(l.split('replay=')[1])
                with_suppress(f)
    return bad


def with_suppress(f):
    try:
        f.unlink()
        alt = Path(str(f).replace('.min.json', '.json'))
        if alt.exists():
            alt.unlink()
    except OSError:
        pass


def main(seed, tier):
    t0 = time.time()
    print(f'VERIF_SEED={seed} selftest tier={tier}', flush=True)
    try:
        bad = determinism(seed, tier)
        if tier == 'thorough':
            bad += sensitivity(seed)
    except driver.HarnessError as e:
        print(f'HARNESS-ERROR selftest\n{e}')
        return 2
    print(f'selftest done in {time.time() - t0:.0f}s: {"OK" if not bad else "FAILED"}', flush=True)
    return 2 if bad else 0
