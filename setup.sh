#!/bin/sh
# Offline setup: make sure hypothesis is importable in /venv, moPepGen imports from /repo, and the
# determinism self-test passes.
set -e
DIR="$(cd "$(dirname "$0")" && pwd)"
PY="${VERIF_PYTHON:-/venv/bin/python}"
cd "$DIR"
if ! "$PY" -c "import hypothesis" 2>/dev/null; then
  PIP_NO_INDEX=1 "$PY" -m pip install --no-index --find-links /opt/veriftools/wheels hypothesis >/dev/null
fi
PYTHONPATH="$DIR" "$PY" -c "
from sim import boot
b = boot.boot()
import hypothesis
print('setup: moPepGen from', b['repo'], 'compat', b['compat'], 'order-seam classes', b['order_seam_classes'], 'hypothesis', hypothesis.__version__)
"
mkdir -p "$DIR/evidence" "$DIR/replays"
if [ -z "$VERIF_SKIP_SELFTEST" ]; then
  ./check selftest --tier quick
fi
