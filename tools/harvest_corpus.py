#!/usr/bin/env python3
"""One-off: harvest (reference, GVF list) pairs named by the repository's integration tests into
/verif/corpus/real/ so that the whole-system engines can use real gene structures (multi-isoform genes, real
exon layouts, published bug reports) without depending on the test tree at check time.

Usage: tools/harvest_corpus.py   (re-run only when the pinned tree changes; output is committed)."""
import ast
import json
import shutil
import sys
from pathlib import Path

REPO = Path('/repo')
OUT = Path(__file__).resolve().parent.parent / 'corpus' / 'real'
SRC = [REPO / 'test/integration/test_call_variant_peptides.py', REPO / 'test/integration/test_brute_force.py']


def path_of(node):
    """self.data_dir/'a/b' -> 'a/b'"""
    if isinstance(node, ast.BinOp) and isinstance(node.op, ast.Div):
        left = path_of(node.left)
        right = node.right.value if isinstance(node.right, ast.Constant) else None
        if left is None or right is None:
            return None
        return (left + '/' + right).lstrip('/')
    if isinstance(node, ast.Attribute) and node.attr == 'data_dir':
        return ''
    return None


def main():
    pairs = []
    for src in SRC:
        tree = ast.parse(src.read_text())
        for fn in ast.walk(tree):
            if not isinstance(fn, ast.FunctionDef) or not fn.name.startswith('test_'):
                continue
            gvf, ref = None, None
            for st in ast.walk(fn):
                if isinstance(st, ast.Assign) and len(st.targets) == 1 and isinstance(st.targets[0], ast.Name):
                    name = st.targets[0].id
                    if name == 'gvf' and isinstance(st.value, ast.List):
                        gvf = [path_of(e) for e in st.value.elts]
                    elif name == 'reference':
                        ref = path_of(st.value)
            if gvf and ref and all(gvf):
                pairs.append((fn.name, ref.rstrip('/'), gvf))
    data = REPO / 'test/files'
    if OUT.exists():
        shutil.rmtree(OUT)
    OUT.mkdir(parents=True)
    manifest = []
    seen = set()
    for name, ref, gvfs in pairs:
        key = (ref, tuple(gvfs))
        if key in seen:
            continue
        seen.add(key)
        rd = data / ref
        if not all((rd / f).exists() for f in ('genome.fasta', 'annotation.gtf', 'proteome.fasta')):
            continue
        if not all((data / g).exists() for g in gvfs):
            continue
        rname = Path(ref).name
        (OUT / 'ref' / rname).mkdir(parents=True, exist_ok=True)
        for f in ('genome.fasta', 'annotation.gtf', 'proteome.fasta'):
            shutil.copy(rd / f, OUT / 'ref' / rname / f)
        outs = []
        for g in gvfs:
            dst = OUT / 'gvf' / g.replace('/', '__')
            dst.parent.mkdir(parents=True, exist_ok=True)
            shutil.copy(data / g, dst)
            outs.append(str(dst.relative_to(OUT)))
        manifest.append({'name': name, 'ref': f'ref/{rname}', 'gvf': outs})
    (OUT / 'manifest.json').write_text(json.dumps(manifest, indent=1))
    print(len(manifest), 'pairs')


if __name__ == '__main__':
    sys.exit(main())
