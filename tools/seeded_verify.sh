#!/bin/bash
# usage: seeded_verify.sh <seeded dir containing patch.diff and demo.py>
# Confirms in a scratch worktree: demo passes on HEAD, fails with the patch, pinned suite still passes with it.
set -u
D="$(cd "$1" && pwd)"
WT="/tmp/sv_$(basename "$D")_$$"
git -C /repo worktree add -q "$WT" HEAD || exit 2
trap 'git -C /repo worktree remove --force "$WT" >/dev/null 2>&1' EXIT
cd "$WT"
timeout 900 /venv/bin/python "$D/demo.py" "$WT" > "$D/.demo_pristine.log" 2>&1; P=$?
git apply "$D/patch.diff" || { echo "PATCH DOES NOT APPLY"; exit 2; }
timeout 900 /venv/bin/python "$D/demo.py" "$WT" > "$D/.demo_patched.log" 2>&1; Q=$?
timeout 1500 /venv/bin/python -m pytest -q -p no:cacheprovider --timeout=900 --continue-on-collection-errors --junitxml="$WT/j.xml" > "$D/.tests.log" 2>&1
/verif/tools/baseline_check.py "$WT/j.xml" > "$D/.baseline.log" 2>&1; B=$?
echo "demo_pristine_exit=$P demo_patched_exit=$Q baseline_ok=$([ $B -eq 0 ] && echo yes || echo no) $(tail -1 "$D/.tests.log")"
