#!/usr/bin/env python3
"""Rewrites the seeded-changes table of DESIGN.md (between the SEEDED-TABLE markers) from seeded/*/meta.json."""
import json
import re
from pathlib import Path

V = Path(__file__).resolve().parent.parent
rows = []
for d in sorted((V / 'seeded').iterdir()):
    m = d / 'meta.json'
    if not m.exists():
        continue
    x = json.loads(m.read_text())
    det = 'yes' if x['detected'] else 'no'
    if x.get('detected') and x.get('strengthened'):
        det = 'yes, after strengthening'
    by = x['detected_by'].replace('|', '/').replace('\n', ' ')
    rows.append(f"| `{d.name}` | {x['property']} | {x['summary'].replace('|', '/')} | {x['needs'].replace('|', '/')} | {det} | {by} |")
n = len(rows)
n_det = sum(1 for r in rows if '| yes' in r)
table = '\n'.join([
    f'{n} verified changes, {n_det} detected by a registered check ({n - n_det} not: stated below).',
    '',
    '| id | property | change | needs to manifest | detected | by / why not |',
    '|----|----------|--------|-------------------|----------|--------------|'] + rows)
p = V / 'DESIGN.md'
s = p.read_text()
s = re.sub(r'(<!-- SEEDED-TABLE-BEGIN -->).*?(<!-- SEEDED-TABLE-END -->)',
           lambda m: m.group(1) + '\n' + table + '\n' + m.group(2), s, flags=re.S)
p.write_text(s)
print(n, n_det)
