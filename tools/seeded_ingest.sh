#!/bin/bash
# usage: seeded_ingest.sh <agent out dir> <seeded id> <property>
# copies patch.diff/demo.py/notes.md into /verif/seeded/<id>/, confirms the demonstration in a scratch worktree
# (tools/seeded_verify.sh) and runs the property's quick check against the patched /repo (tools/seeded_run.sh).
set -u
SRC="$1"; ID="$2"; PID="$3"
D=/verif/seeded/$ID
mkdir -p "$D"
cp "$SRC/patch.diff" "$SRC/demo.py" "$D/" || exit 2
[ -f "$SRC/notes.md" ] && cp "$SRC/notes.md" "$D/"
/verif/tools/seeded_verify.sh "$D"
/verif/tools/seeded_run_wt.sh "$D" "$PID" quick
