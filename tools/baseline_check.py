#!/usr/bin/env python3
"""Compare a junit xml of the pinned suite with /root/.vp/BASELINE.json: every stable_pass test must pass.
usage: baseline_check.py <junit.xml>"""
import json, sys
import xml.etree.ElementTree as ET
base = json.load(open('/root/.vp/BASELINE.json'))
want = set(base['stable_pass'])
root = ET.parse(sys.argv[1]).getroot()
passed = set()
for tc in root.iter('testcase'):
    name = f"{tc.get('classname')}::{tc.get('name')}"
    if not any(ch.tag in ('failure', 'error', 'skipped') for ch in tc):
        passed.add(name)
missing = sorted(want - passed)
print(f'baseline stable_pass={len(want)} passed_now={len(passed)} baseline_missing={len(missing)}')
for m in missing[:20]:
    print('  MISSING', m)
sys.exit(1 if missing else 0)
