#!/bin/bash
# usage: seeded_run.sh <seeded dir> <property> [tier]   -- applies the patch to /repo, runs the check, reverts.
set -u
D="$(cd "$1" && pwd)"; PID="$2"; TIER="${3:-quick}"
cd /repo
if [ -n "$(git status --porcelain)" ]; then echo "/repo not clean"; exit 2; fi
git apply "$D/patch.diff" || exit 2
trap 'git -C /repo checkout -- . ' EXIT
cd /verif
VERIF_NO_EVIDENCE=1 timeout 3000 ./check "$PID" --tier "$TIER" > "$D/.check_$PID.log" 2>&1
RC=$?
echo "check $PID tier=$TIER rc=$RC"
grep -E "^VIOLATION|^  clause|^KNOWN|^HARNESS|^property=" "$D/.check_$PID.log" | cut -c1-300 | head -12
