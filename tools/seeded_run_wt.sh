#!/bin/bash
# usage: seeded_run_wt.sh <seeded dir> <property> [tier] [seed]
# Applies the patch in a scratch worktree of /repo HEAD (never in /repo itself) and runs the property's check
# against that tree (VERIF_REPO).  Safe to run several at once.
set -u
D="$(cd "$1" && pwd)"; PID="$2"; TIER="${3:-quick}"; SEED="${4:-0}"
WT="/tmp/sr_$(basename "$D")_$$"
git -C /repo worktree add -q "$WT" HEAD || exit 2
trap 'git -C /repo worktree remove --force "$WT" >/dev/null 2>&1' EXIT
git -C "$WT" apply "$D/patch.diff" || { echo "PATCH DOES NOT APPLY"; exit 2; }
cd /verif
LOG="$D/.check_${PID}_s${SEED}.log"
VERIF_REPO="$WT" VERIF_NO_EVIDENCE=1 timeout 3000 ./check "$PID" --tier "$TIER" --seed "$SEED" > "$LOG" 2>&1
RC=$?
echo "$(basename "$D") check $PID tier=$TIER seed=$SEED rc=$RC :: $(grep -E '^  clause' "$LOG" | awk '{print $1}' | sort | uniq -c | tr '\n' ' ') $(grep -E '^HARNESS' "$LOG" | head -1 | cut -c1-80)"
