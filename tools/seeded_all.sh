#!/bin/bash
# usage: seeded_all.sh [jobs]   -- runs every seeded change against the registered quick check of its property (or
# meta.check_property) in scratch worktrees, JOBS at a time, and prints a regression table against meta.detected.
JOBS="${1:-2}"
cd /verif
OUT=/tmp/seeded_all_$$
mkdir -p $OUT
ls -d seeded/*/ | while read d; do
  id=$(basename $d)
  [ -f $d/meta.json ] || continue
  pid=$(python3 -c "import json;m=json.load(open('$d/meta.json'));print(m.get('check_property',m['property']))")
  echo "$id $pid"
done > $OUT/list
cat $OUT/list | xargs -P "$JOBS" -L 1 sh -c 'tools/seeded_run_wt.sh seeded/$0 $1 quick 0 2>&1 | grep -v WARNING > '$OUT'/$0.res'
python3 - <<PY
import json,glob,os,re
bad=0
for line in open('$OUT/list'):
    sid,pid=line.split()
    res=open('$OUT/%s.res'%sid).read().strip()
    m=json.load(open('seeded/%s/meta.json'%sid))
    rc=re.search(r'rc=(\d+)',res)
    rc=int(rc.group(1)) if rc else -1
    detected = rc==1
    flag='' if detected==bool(m['detected']) else '   <<<<< differs from meta.detected=%s'%m['detected']
    if flag: bad+=1
    print('%-7s %-4s rc=%s %s%s'%(sid,pid,rc,res.split('::')[-1].strip()[:90],flag))
print('regressions:',bad)
PY
