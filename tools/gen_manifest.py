#!/usr/bin/env python3
"""Generates /verif/MANIFEST.json (single source of truth for the manifest; run after editing)."""
import json
import sys
from pathlib import Path

VERIF = Path(__file__).resolve().parent.parent
BASELINE_CMD = ("cd /repo && /venv/bin/python -m pytest -ra -q -p no:cacheprovider --timeout=900 "
                "--continue-on-collection-errors")

TECH = 'deterministic simulation with fault injection: seeded search over schedules / faults / histories'

CHECKS = {
    'C02': dict(
        engine='cv-timeout', design='4-C02',
        text=('Seeded search: the real caller_reducer/wrapper is run under a virtual SIGALRM that fires at a '
              'PRNG-chosen line event of a PRNG-chosen attempt (1..ladder+1 firings), ladders, --skip-failed and '
              'threads varied, alarm placement stratified over the stages of an attempt; every peptide of the result '
              'after interrupted attempts must be produced by the uninterrupted run with the initial limits, or else '
              'by the run without complexity limits (the reduced limits own output is not a justification). '
              'Generated references with planted variant clusters, paralog references and 70 corpus inputs from the '
              'repository tests. Evidence, not proof; decides only the timeout/retry clause of C02.'),
        note=('Assumes fault-free executions are sound (pure-input clause of C02, not applicable to this '
              'technique); alarms are line-granular, C code is atomic; SimPool/FakeSignal are stubs.'),
        technique=TECH + ' (virtual clock/alarm at line events, retry ladder, subset oracle vs fault-free runs)'),
    'C04': dict(
        engine='c04-monitor', design='4-C04',
        text=('Invariant monitor evaluated on every simulated callVariant execution (all thread counts, layouts, '
              'unit faults, timeouts/retries) and on callNovelORF / callAltTranslation runs (two draws of binding '
              'limits each): no canonical / I->L peptide, length/mass/alphabet limits, uniqueness, table == FASTA '
              'pairs, row slices. A fifth of the references (half of the one-shot ones) carry a near-identical paralog '
              'of every gene, so that variant and W>F peptides collide with canonical ones.'),
        note=('The canonical pool is taken as what the run itself loads (whether that pool is the right digest is '
              'C10, not applicable); limits are drawn so that they bind.'),
        technique=TECH + ' (always-on invariant monitor over simulated runs)'),
    'C06': dict(
        engine='cv-sched', design='4-C06',
        text=('Seeded search over schedules and layouts: threads 1..8 through a PRNG-ordered in-process pool with '
              'pickle isolation, batch compositions incl. skipped transcripts, partitions/orders of GVF files, .idx '
              'subset, generateIndex directory, pointer-cache sizes, identity-hash order (order seam) and '
              'PYTHONHASHSEED (second interpreter), index directories generated for other parameters, non-ASCII GVF '
              'headers; oracle = equality of the peptide-sequence set with a reference execution of the same input; '
              'plus one and the same virtual-alarm plan under --threads 1 and --threads k. One input per quick run '
              '(four per thorough run) is also executed through the real pathos pool (stub calibration).'),
        note=('SimPool models pathos map semantics, not OS scheduling; compat layer L0 and the order seam alter '
              'three constructors / the __hash__ of identity-hashed classes (listed in evidence).'),
        technique=TECH + ' (schedule/layout perturbation vs reference execution)'),
    'C07': dict(
        engine='cv-fault', design='4-C07',
        text=('Seeded fault injection: any subset of processing units (main/fusion/circRNA/gather) fails at entry or '
              'at the k-th line event inside the unit; with --skip-failed the run must complete and equal (sequences, '
              'header entries, table rows) the run where those units cleanly produced nothing, be sandwiched by the '
              'fault-free run (attribution by what each unit returned), tally correctly; without the flag it must '
              'abort without a FASTA. A one-shot TimeoutError absorbed by the retry ladder must leave the other transcripts peptides in place. Second fault source: units that fail by themselves under cleavage rules the '
              'graph code cannot handle. Same for row failures in the four parsers (injected around the conversion, '
              'or rows that fail by themselves).'),
        note=('Faults are Python exceptions at line granularity; absorbed faults are discarded; header entry strings '
              'are not compared (order-sensitive), only the attribution of sequences to backbones.'),
        technique=TECH + ' (unit-level fault injection, clean-skip reference model)'),
    'C11': dict(
        engine='gtf-store', design='4-C11',
        text=('Hypothesis stateful histories over the on-disk annotation store (shared handle, byte-range pointers, '
              'bounded caches with randomised sizes 1..12, raw-GTF vs .idx construction, write->reparse) compared '
              'operation by operation with the fully parsed annotation and flat position lists; coordinate / '
              'sequence cross-invariants checked on every touched model.'),
        note=('Annotations: generated (also rewritten in the Ensembl dialect, with second isoforms, start codons, '
              'non-ASCII bytes), the demo GTF and 32 downsampled real references; the intron-rejection invariant is '
              'only applied to generated annotations (no abutting exons).'),
        technique=TECH + ' (stateful access histories vs reference model)'),
    'C12': dict(
        engine='index-store', design='4-C12',
        text=('Hypothesis stateful histories of generateIndex / updateIndex (+-force, symlink) / load / version skew / '
              'kill at the k-th durable-state event of generateIndex --force or updateIndex (incl. torn writes; only the '
              'directory copy taken at that instant survives) on one directory, every operation a fresh invocation sharing only the directory; dictionary model '
              'params -> pool computed on the fly; after every operation every registered pool and all reference '
              'data are reloaded and compared.'),
        note=('Crash atomicity / recoverability of the directory is not demanded (C12 is stated over invocation '
              'sequences): after a killed or failed invocation only loads that succeed are judged (must be faithful); version '
              'skew includes the metadata layout of pre-1.3.0 releases; proteomes contain X / * proteins.'),
        technique=TECH + ' (stateful invocation histories with crash points over a durable directory vs dictionary model)'),
    'C13': dict(
        engine='gvf-store', design='4-C13',
        text=('Hypothesis stateful histories over GVF files + .idx side-cars + shared seekable handles: record round '
              'trip W(P(W(r)))==W(r) for all record kinds, per-transcript loads in random order vs linear scan, '
              'with/without idx, pool[tx] idempotence, edit-after-index faults (append/delete/swap/byte flip/foreign '
              'idx/no checksum) that must be rejected, and indexGVF killed at a PRNG-chosen line event followed by a '
              're-open (whatever .idx is found must be refused or equivalent to the scan).'),
        note='Corrupted pointer lines under a valid checksum are outside the property (checksum covers the GVF only).',
        technique=TECH + ' (file-store histories with stale-index faults vs linear-scan model)'),
    'C20': dict(
        engine='decoy', design='4-C20',
        text=('Seeded search over option sets: same seed => byte-identical output under different prior global-RNG '
              'states and under another PYTHONHASHSEED in a fresh interpreter; permuted arrival order of targets => '
              'same record set and arrangement; an intervening call with other options, or on other targets (the first run decoys), must not change the next '
              'identical call; structural monitors (targets unchanged, one decoy per target, permutation of residues, '
              'termini and listed residues fixed). Decides the reproducibility/order clause and the oracle-free '
              'structural clauses.'),
        note=('Which residues at enzyme cleavage sites stay fixed is a pure-input clause (not decided); inputs with '
              'duplicated sequences are judged on the per-record clauses only.'),
        technique=TECH + ' (RNG-state / hash-seed / arrival-order perturbation)'),
}

ENGINE_FILES = {
    'cv-timeout': 'sim/engines/cv_timeout.py', 'c04-monitor': 'sim/engines/c04.py',
    'cv-sched': 'sim/engines/cv_sched.py', 'cv-fault': 'sim/engines/cv_fault.py',
    'gtf-store': 'sim/engines/gtf_store.py', 'index-store': 'sim/engines/index_store.py',
    'gvf-store': 'sim/engines/gvf_store.py', 'decoy': 'sim/engines/decoy.py',
}

NA = {
    'C01': 'completeness of the peptide set is a pure function of (reference, variants, options); needs an independent haplotype enumeration, no schedule/clock/I-O history/fault to simulate (schedule independence is C06, timeouts C02)',
    'C03': 'header truthfulness needs an independent re-derivation of every label from the named variants; pure function of the input, no seam involved',
    'C05': 'metamorphic relation between two fault-free runs under ordered configurations: pure input/configuration property',
    'C08': 'callNovelORF output = definitional ORF digest of the input: single-threaded, no retry, no store, no fault (its output is passed through the C04 monitor)',
    'C09': 'callAltTranslation output = definitional digest of the input: pure (its output is passed through the C04 monitor)',
    'C10': 'exact in-silico digest semantics over all amino-acid strings is an enumeration/proof question; the generateIndex-vs-on-the-fly clause is decided inside C12',
    'C14': 'parseVEP normalisation is a pure function of (row, annotation); its --skip-failed row isolation is exercised under C07',
    'C15': 'fusion breakpoint arithmetic is pure; row isolation is exercised under C07',
    'C16': 'rMATS isoform reconstruction is a pure function of (row, annotation)',
    'C17': 'circRNA block-to-fragment conversion is a pure function of (row, annotation)',
    'C18': 'split/merge/encode/summarize are pure transformations of FASTA headers and sequences; outputs are written once, sequentially',
    'C19': 'filterFasta is a pure filter predicate over records and options',
}


def main():
    built = [p for p in CHECKS if (VERIF / ENGINE_FILES[CHECKS[p]['engine']]).exists()]
    checks = []
    for pid in sorted(built):
        c = CHECKS[pid]
        checks.append({
            'property_id': pid,
            'quick_cmd': f'./check {pid} --tier quick',
            'thorough_cmd': f'./check {pid} --tier thorough',
            'evidence_file': f'/verif/evidence/{pid}.json',
            'replay_cmd_template': f'./check {pid} --replay {{path}}',
            'engine': c['engine'],
            'level_claimed': {'category': 'exploration', 'text': c['text'], 'design_ref': f"DESIGN.md section {c['design']}"},
            'level_note': c['note'],
            'technique': c['technique'],
        })
    engines = []
    for pid in sorted(built):
        c = CHECKS[pid]
        engines.append({'name': c['engine'], 'path': ENGINE_FILES[c['engine']], 'serves_properties': [pid],
                        'kind_free_text': 'seeded in-process simulation of the real moPepGen code'})
    hooks_commits = []
    hc = VERIF / 'hook_commits.txt'
    if hc.exists():
        hooks_commits = [l.split()[0] for l in hc.read_text().splitlines() if l.strip() and not l.startswith('#')]
    manifest = {
        'version': 1,
        'setup_cmd': './setup.sh',
        'hooks': {
            'guard': 'MOPEPGEN_VERIF',
            'enable': ('no source hook is needed: every seam is attached from /verif by replacing module attributes '
                       'of the imported working tree (sim/cvrun.py, sim/boot.py); the checks set MOPEPGEN_VERIF=1 '
                       'and import /repo directly (sys.path[0]=/repo), so they always run the current working tree'),
            'baseline_off_cmd': BASELINE_CMD,
            'source_commits': hooks_commits,
            'add_only': True,
        },
        'engines': engines,
        'checks': checks,
        'not_applicable': [{'property_id': k, 'reason': v} for k, v in sorted(NA.items())],
        'notes': ('Technique family: deterministic simulation with fault injection. VERIF_SEED decides everything; '
                  'exit 0 / 1 (+VIOLATION line) / 2 (harness error). See DESIGN.md. known_findings.json lists open '
                  'and fixed findings.'),
    }
    (VERIF / 'MANIFEST.json').write_text(json.dumps(manifest, indent=1) + '\n')
    print('claimed:', sorted(built))


if __name__ == '__main__':
    main()
