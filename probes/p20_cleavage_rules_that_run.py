import sys, io, contextlib, traceback
sys.path.insert(0,'/tmp/exp')
from explore1 import *
work = Path('/tmp/exp/w/g0'); anno, genome, recs = gen(0, work, n_genes=6, n_var=24); files = write(recs, work, anno)
for rule, mis, ml in (('lysc','1',6), ('lysc','2',7), ('lysc','0',7), ('argc','2',7), ('chymotrypsin high specificity','2',7),('lysn','2',7)):
    a = base_args(work, files, cleavage_rule=rule, miscleavage=mis, min_length=ml)
    try:
        with contextlib.redirect_stdout(io.StringIO()): cvp.call_variant_peptide(a)
        print(rule, mis, ml, 'ok', sum(1 for _ in SeqIO.parse(a.output_path,'fasta')))
    except Exception as e:
        tb = traceback.extract_tb(e.__traceback__)
        print(rule, mis, ml, type(e).__name__, e, [(f.filename.split('/')[-1], f.lineno, f.name) for f in tb[-3:]])
