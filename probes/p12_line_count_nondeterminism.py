import sys, hashlib
sys.path.insert(0,'/tmp/exp')
from explore4_lib import *
pre = int(sys.argv[2]) if len(sys.argv)>2 else 0
for s in range(100, 100+pre):   # warm-up other cases first to perturb heap
    work = Path(f'/tmp/exp/w/p{s}'); anno, genome, recs = gen(s, work, n_genes=3, n_var=8); files = write(recs, work, anno)
    run(work, files, [])
seed = int(sys.argv[1])
work = Path(f'/tmp/exp/w/d{seed}')
anno, genome, recs = gen(seed, work, n_genes=4, n_var=16)
files = write(recs, work, anno)
out, fs, _ = run(work, files, [], max_variants_per_node=[7,5,3], additional_variants_per_misc=[2,1,0])
print(seed, pre, fs.counts, hashlib.sha1('\n'.join(sorted(out)).encode()).hexdigest()[:8], hashlib.sha1(repr(sorted(out.items())).encode()).hexdigest()[:8])
