import sys
sys.path.insert(0,'/tmp/exp')
from explore1 import *
work = Path('/tmp/exp/w/big'); anno, genome, recs = gen(5, work, n_genes=14, n_var=0)
a = gtf.GenomicAnnotationOnDisk(); a.generate_index(work/'annotation.gtf')
keys = list(a.transcripts.keys()); print(len(keys))
try: a.transcripts['NOPE']
except KeyError: print('KeyError as expected')
for i,k in enumerate(keys[:13]):
    try: a.transcripts[k]
    except Exception as e:
        print('access', i, k, 'raised', type(e).__name__, repr(e)); break
else: print('no problem')
gk = list(a.genes.keys())
try: a.genes['NOPE']
except KeyError: pass
for i,k in enumerate(gk[:13]):
    try: a.genes[k]
    except Exception as e:
        print('gene access', i, k, 'raised', type(e).__name__, repr(e)); break
