import sys, time
sys.path.insert(0,'/tmp/exp')
from explore1 import *
from hypothesis import settings, seed, strategies as st, Verbosity, HealthCheck
from hypothesis.stateful import RuleBasedStateMachine, rule, initialize, invariant, run_state_machine_as_test
import moPepGen.gtf.GTFPointer as GP
work = Path('/tmp/exp/w/hyp'); anno0, genome, _ = gen(7, work, n_genes=13, n_var=0)
MEM = gtf.GenomicAnnotation(); MEM.dump_gtf(work/'annotation.gtf')
TX = list(MEM.transcripts); GN = list(MEM.genes)
TRACE = []
class M(RuleBasedStateMachine):
    def __init__(self):
        super().__init__()
        TRACE.clear()
    @initialize(gs=st.integers(1,12), ts=st.integers(1,12))
    def init(self, gs, ts):
        GP.GENE_DICT_CACHE_SIZE = gs; GP.TX_DICT_CACHE_SIZE = ts
        self.d = gtf.GenomicAnnotationOnDisk(); self.d.generate_index(work/'annotation.gtf')
        TRACE.append(('init', gs, ts))
    @rule(i=st.integers(0, len(TX)-1))
    def tx(self, i):
        TRACE.append(('tx', i))
        m = self.d.transcripts[TX[i]]
        assert [int(e.location.start) for e in m.exon] == [int(e.location.start) for e in MEM.transcripts[TX[i]].exon]
    @rule(i=st.integers(0, len(GN)-1))
    def gene(self, i):
        TRACE.append(('gene', i))
        g = self.d.genes[GN[i]]
        assert int(g.location.start) == int(MEM.genes[GN[i]].location.start)
    @rule(which=st.sampled_from(['tx','gene']), k=st.sampled_from(['NOPE1','NOPE2']))
    def absent(self, which, k):
        TRACE.append(('absent', which, k))
        d = self.d.transcripts if which=='tx' else self.d.genes
        try:
            d[k]; assert False, 'no KeyError'
        except KeyError: pass
t0=time.time()
try:
    run_state_machine_as_test(seed(int(sys.argv[1]))(M), settings=settings(max_examples=int(sys.argv[2]), stateful_step_count=40, database=None, deadline=None, report_multiple_bugs=False, suppress_health_check=list(HealthCheck), verbosity=Verbosity.quiet))
    print('no failure', time.time()-t0)
except Exception as e:
    print('FAILED', type(e).__name__, repr(e)[:80], '%.1fs'%(time.time()-t0))
    print('minimal trace', len(TRACE), TRACE)
