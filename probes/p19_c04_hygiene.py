import sys, os, io, contextlib, random, collections
sys.path.insert(0,'/tmp/exp')
from explore1 import *
import dethash; dethash.install()
from Bio import SeqUtils
from moPepGen import params
def hygiene(a):
    cp = params.CleavageParams(enzyme=a.cleavage_rule, exception=a.cleavage_exception, miscleavage=int(a.miscleavage), min_mw=float(a.min_mw), min_length=a.min_length, max_length=a.max_length)
    _, _, _, pool = common.load_references(a, load_genome=False, cleavage_params=cp)
    pool2 = set(pool) | {p.replace('I','L') for p in pool}
    recs = list(SeqIO.parse(a.output_path,'fasta'))
    v=[]
    seqs=[str(r.seq) for r in recs]
    if len(seqs)!=len(set(seqs)): v.append('dup')
    fp = collections.Counter()
    for r in recs:
        s=str(r.seq)
        if s in pool2: v.append(('canon', s))
        if not (a.min_length <= len(s) <= a.max_length): v.append(('len', s))
        if SeqUtils.molecular_weight(r.seq,'protein') < float(a.min_mw): v.append(('mw', s))
        if 'X' in s or '*' in s: v.append(('alpha', s))
        for e in r.description.split(' '): fp[(s,e)] += 1
    tp = collections.Counter(); rows=0
    tpath = Path(a.output_path).parent/f"{Path(a.output_path).stem}_peptide_table.txt"
    seen=set()
    for line in open(tpath):
        if line.startswith('#'): continue
        f = line.rstrip('\n').split('\t'); rows+=1
        if f[2] != f[0][int(f[3]):int(f[4])]: v.append(('slice', f[:5]))
        seen.add((f[0], f[1]))
    for k in seen: tp[k]+=1
    if set(fp) != set(tp): v.append(('pairs', len(set(fp)-set(tp)), len(set(tp)-set(fp)), list(set(tp)-set(fp))[:2]))
    if any(c>1 for c in fp.values()): v.append('dup_entry_in_header')
    return v, len(recs), rows
tot=0
for seed in range(int(sys.argv[1]), int(sys.argv[2])):
    work = Path(f'/tmp/exp/w/g{seed}')
    anno, genome, recs = gen(seed, work, n_genes=6, n_var=24)
    files = write(recs, work, anno)
    rng = random.Random(seed)
    for rule, mis, ml in (('trypsin','2',7), ('lysc','1',6), ('trypsin','0',8)):
        a = base_args(work, files, cleavage_rule=rule, miscleavage=mis, min_length=ml, coding_novel_orf=rng.random()<0.5)
        dethash.reset(rng.randrange(10**6))
        try:
            with contextlib.redirect_stdout(io.StringIO()): cvp.call_variant_peptide(a)
        except Exception as e:
            print(seed, rule, 'EXC', type(e).__name__, str(e)[:80]); continue
        v, n, rows = hygiene(a); tot+=1
        if v: print(seed, rule, mis, 'VIOL', v[:4], n, rows)
print('checked', tot)
