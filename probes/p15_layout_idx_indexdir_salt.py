import sys, os, io, contextlib, random, hashlib, shutil, argparse
sys.path.insert(0,'/tmp/exp')
from explore1 import *
import dethash; dethash.install()
import moPepGen.cli.index_gvf, moPepGen.cli.generate_index
ig = sys.modules['moPepGen.cli.index_gvf']; gi = sys.modules['moPepGen.cli.generate_index']
from moPepGen.seqvar.GVFMetadata import GVFMetadata
def split_gvf(path, parts, rng, outdir, prefix):
    with open(path) as h: lines = h.readlines()
    hdr = [l for l in lines if l.startswith('#')]
    recs = [l for l in lines if not l.startswith('#')]
    groups = [[] for _ in range(parts)]
    for r in recs: groups[rng.randrange(parts)].append(r)
    out=[]
    for i,g in enumerate(groups):
        if not g: continue
        if rng.random()<0.5: rng.shuffle(g)
        p = outdir/f'{prefix}{i}.gvf'
        with open(p,'w') as h: h.writelines(hdr+g)
        out.append(p)
    return out
def run(work, files, salt=0, **kw):
    dethash.reset(salt)
    a = base_args(work, files, **kw)
    if a.output_path.exists(): a.output_path.unlink()
    with contextlib.redirect_stdout(io.StringIO()):
        cvp.call_variant_peptide(a)
    return {str(r.seq) for r in SeqIO.parse(a.output_path,'fasta')}
tot=bad=0
for seed in range(int(sys.argv[1]), int(sys.argv[2])):
    rng = random.Random(seed)
    work = Path(f'/tmp/exp/w/l{seed}'); shutil.rmtree(work, ignore_errors=True)
    anno, genome, recs = gen(seed, work, n_genes=6, n_var=24)
    files = write(recs, work, anno)
    try: ref = run(work, files)
    except Exception as e: print(seed, 'ref fails', type(e).__name__, str(e)[:80]); continue
    # index dir
    ga = argparse.Namespace(command='generateIndex', genome_fasta=work/'genome.fasta', annotation_gtf=work/'annotation.gtf', proteome_fasta=work/'proteome.fasta', reference_source=None, invalid_protein_as_noncoding=False, output_dir=work/'index', gtf_symlink=False, force=False, cleavage_rule='trypsin', cleavage_exception=None, miscleavage='2', min_mw='500.', min_length=7, max_length=25, quiet=True, debug_level=1)
    with contextlib.redirect_stdout(io.StringIO()): gi.generate_index(ga)
    for trial in range(4):
        d = work/f't{trial}'; d.mkdir()
        fs=[]
        for f in files:
            fs += split_gvf(f, rng.randint(1,4), rng, d, f.stem+'_')
        rng.shuffle(fs)
        idxd=[]
        for f in fs:
            if rng.random()<0.5:
                with contextlib.redirect_stdout(io.StringIO()): ig.index_gvf(argparse.Namespace(command='indexGVF', input_path=f, quiet=True, debug_level=1))
                idxd.append(f.name)
        use_index = rng.random()<0.5
        kw = dict(output_path=d/'out.fasta')
        if use_index: kw.update(index_dir=work/'index', genome_fasta=None, annotation_gtf=None, proteome_fasta=None)
        salt = rng.choice([0, rng.randrange(1,10**6)])
        tot+=1
        try:
            out = run(work, fs, salt=salt, **kw)
        except Exception as e:
            bad+=1; print(seed, trial, 'RAISED', type(e).__name__, str(e)[:100], len(fs), idxd, use_index); continue
        if out != ref:
            bad+=1; print(seed, trial, 'DIFF', len(ref), len(out), 'lost', len(ref-out), 'extra', len(out-ref), 'nfiles', len(fs), 'idx', idxd, 'index_dir', use_index, 'salt', salt)
print('total', tot, 'bad', bad)
