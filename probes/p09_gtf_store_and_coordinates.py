import sys
sys.path.insert(0,'/tmp/exp')
from explore1 import *
from moPepGen import ERROR_INDEX_IN_INTRON
from moPepGen.index import IndexDir
import shutil
viol = {}
def V(k, msg):
    viol.setdefault(k, []).append(msg)
def digest_feature(f):
    return (f.chrom, int(f.location.start), int(f.location.end), f.location.strand, f.type, getattr(f,'frame',None), tuple(sorted((k, tuple(v) if isinstance(v,list) else v) for k,v in f.attributes.items())))
def digest_tx(m):
    return (digest_feature(m.transcript), tuple(digest_feature(x) for x in m.cds), tuple(digest_feature(x) for x in m.exon), tuple(digest_feature(x) for x in m.utr), tuple(digest_feature(x) for x in m.five_utr), tuple(digest_feature(x) for x in m.three_utr), tuple(digest_feature(x) for x in m.selenocysteine), m.is_protein_coding, m.transcript_id, m.gene_id, m.protein_id, m.gene_name, m.gene_type)
def digest_gene(g):
    return (digest_feature(g), tuple(sorted(g.transcripts)))
for seed in range(int(sys.argv[1]), int(sys.argv[2])):
    work = Path(f'/tmp/exp/w/c11_{seed}'); shutil.rmtree(work, ignore_errors=True)
    anno0, genome, _ = gen(seed, work, n_genes=8, n_var=0)
    mem = gtf.GenomicAnnotation(); mem.dump_gtf(work/'annotation.gtf')
    prot = aa.AminoAcidSeqDict(); prot.dump_fasta(work/'proteome.fasta')
    mem.check_protein_coding(prot, False)
    disk = gtf.GenomicAnnotationOnDisk(); disk.generate_index(work/'annotation.gtf'); disk.check_protein_coding(prot, False)
    # roundtrip vs original in-memory model anno0
    for t in anno0.transcripts:
        a, b = digest_tx(anno0.transcripts[t]), digest_tx(mem.transcripts[t])
        if a != b:
            V('roundtrip', (seed, t, [i for i,(x,y) in enumerate(zip(a,b)) if x!=y]))
    for t in mem.transcripts:
        if digest_tx(mem.transcripts[t]) != digest_tx(disk.transcripts[t]): V('disk_tx', (seed,t))
    for g in mem.genes:
        if digest_gene(mem.genes[g]) != digest_gene(disk.genes[g]): V('disk_gene', (seed,g))
    # index dir load path
    idx = IndexDir(work/'index'); (work/'index').mkdir()
    idx.save_annotation(work/'annotation.gtf', proteome=prot, invalid_protein_as_noncoding=False, symlink=False)
    idx.metadata.source = 'GENCODE'
    d2 = idx.load_annotation()
    for t in mem.transcripts:
        if digest_tx(mem.transcripts[t]) != digest_tx(d2.transcripts[t]): V('idx_tx', (seed,t, ))
    # coordinate invariants
    for t, m in mem.transcripts.items():
        strand = m.transcript.strand
        flat = []
        exons = m.exon if strand == 1 else list(reversed(m.exon))
        for e in exons:
            rng = range(int(e.location.start), int(e.location.end))
            flat += list(rng) if strand == 1 else list(reversed(rng))
        chrom = genome[m.transcript.chrom]
        seq = m.get_transcript_sequence(chrom)
        if len(seq) != len(flat): V('len', (seed,t))
        comp = {'A':'T','T':'A','G':'C','C':'G'}
        for i,g in enumerate(flat):
            try:
                if mem.coordinate_transcript_to_genomic(i, t) != g: V('I1a', (seed,t,i))
                if m.get_transcript_index(g) != i: V('I1b', (seed,t,i,g,m.get_transcript_index(g)))
            except Exception as e:
                V('I1exc', (seed,t,i,g,repr(e)))
            base = str(chrom.seq[g]); base = base if strand==1 else comp[base]
            if str(seq.seq[i]) != base: V('I5', (seed,t,i))
        fs = set(flat)
        for g in range(int(m.transcript.location.start), int(m.transcript.location.end)):
            if g in fs: continue
            try:
                r = m.get_transcript_index(g); V('I2_mapped', (seed,t,g,r,strand))
            except ValueError as e:
                if e.args[0] != ERROR_INDEX_IN_INTRON: V('I2_othererr', (seed,t,g,str(e)))
        gid = m.transcript.gene_id; gm = mem.genes[gid]
        L = int(gm.location.end - gm.location.start)
        for i in range(L):
            g = mem.coordinate_gene_to_genomic(i, gid)
            if mem.coordinate_genomic_to_gene(g, gid) != i: V('I3', (seed,gid,i))
            exp = gm.location.start + i if gm.strand==1 else gm.location.end-1-i
            if g != exp: V('I3b', (seed,gid,i))
            try:
                ti = mem.coordinate_gene_to_transcript(i, gid, t)
                if g not in fs or flat[ti] != g: V('I4', (seed,t,i))
            except ValueError as e:
                if g in fs: V('I4exc', (seed,t,i,g,str(e)[:50], strand))
        # orf
        if m.cds:
            cds_first = (m.cds[0].location.start + m.cds[0].frame) if strand==1 else (m.cds[-1].location.end - 1 - (m.cds[-1].frame or 0))
            if seq.orf.start != flat.index(cds_first): V('I6', (seed,t,seq.orf.start, flat.index(cds_first)))
print({k:(len(v), v[:3]) for k,v in viol.items()})
