import warnings; warnings.filterwarnings('ignore')
import glob, io
from moPepGen import seqvar, circ
from moPepGen.seqvar.GVFMetadata import GVFMetadata
ok=bad=0; badfiles=[]
for p in sorted(glob.glob('/repo/test/files/**/*.gvf', recursive=True)):
    with open(p) as h:
        try:
            md = GVFMetadata.parse(h)
        except Exception as e:
            print('meta fail', p, e); continue
        lines = [l.rstrip('\n') for l in h if not l.startswith('#')]
    is_circ = md.is_circ_rna()
    nbad=0
    for l in lines:
        try:
            r = circ.io.line_to_circ_model(l) if is_circ else seqvar.io.line_to_variant_record(l)
            l2 = r.to_string()
            r2 = circ.io.line_to_circ_model(l2) if is_circ else seqvar.io.line_to_variant_record(l2)
            l3 = r2.to_string()
        except Exception as e:
            nbad+=1; ex=(type(e).__name__, str(e)[:60], l[:80]); continue
        if l2 != l3: nbad+=1; ex=('idem', l2[:120], l3[:120])
        elif l != l2: nbad+=0; ex=None; 
        # fixed point?
        if l != l2 and len(badfiles)<6: badfiles.append((p.split('files/')[1], l[:150], l2[:150]))
    if nbad: bad+=1; print('BAD', p.split('files/')[1], nbad, ex)
    else: ok+=1
print(ok, bad)
for b in badfiles: print(b)
