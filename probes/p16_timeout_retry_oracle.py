import sys, hashlib
sys.path.insert(0,'/tmp/exp')
from explore4_lib import *
import dethash; dethash.install()
_orig_alarm = FakeSignal.alarm
def alarm(self, seconds):
    if seconds: dethash.reset()
    return _orig_alarm(self, seconds)
FakeSignal.alarm = alarm
tot=bad=lostn=0
for seed in range(int(sys.argv[1]), int(sys.argv[2])):
    work = Path(f'/tmp/exp/w/q{seed}')
    anno, genome, recs = gen(seed, work, n_genes=4, n_var=18)
    files = write(recs, work, anno)
    lad = dict(max_variants_per_node=[7,3,1], additional_variants_per_misc=[2,0])
    try:
        base, fs0, _ = run(work, files, [], **lad)
        # fresh runs at each ladder level
        lv = {}
        for m,a in ((7,2),(3,0),(1,0),(-1,-1)):
            lv[(m,a)], _, _ = run(work, files, [], max_variants_per_node=[m], additional_variants_per_misc=[a])
    except Exception as e:
        print(seed, 'ref fail', type(e).__name__, str(e)[:80]); continue
    union = set().union(*[set(v) for v in lv.values()])
    rng = random.Random(seed)
    for trial in range(10):
        j = rng.randrange(len(fs0.counts))
        r = rng.choice([1,1,2,3])
        plan = [None]*j + [rng.randrange(1, fs0.counts[j]+1) for _ in range(r)]
        sf = rng.random()<0.4
        tot+=1
        try:
            out, fs, log = run(work, files, plan, skip_failed=sf, **lad)
        except Exception as e:
            print(seed, trial, 'EXC', type(e).__name__, str(e)[:80], plan[j:], sf); continue
        extra = set(out)-union; lost = set(base)-set(out)
        lostn += bool(lost)
        if extra:
            bad+=1; print(seed, trial, 'INVENTED', len(extra), list(extra)[:3], plan[j:], fs.fired, sf)
print('total', tot, 'invented', bad, 'runs_with_loss', lostn, {k:len(v) for k,v in lv.items()})
