import os, sys
if os.environ.get('EXP_SHIM') == '1':
    import warnings
    warnings.filterwarnings('ignore')
    import moPepGen.dna.DNASeqRecord, moPepGen.aa.AminoAcidSeqRecord
    m = sys.modules['moPepGen.dna.DNASeqRecord']; a = sys.modules['moPepGen.aa.AminoAcidSeqRecord']
    def _base(self, name):
        mro = type(self).__mro__
        for i, c in enumerate(mro):
            if c.__name__ == name:
                return mro[i+1]
        raise TypeError(name)
    def __init__(self, seq, *args, locations=None, orf=None, selenocysteine=None, **kwargs):
        _base(self, 'DNASeqRecordWithCoordinates').__init__(self, seq, *args, **kwargs)
        self.locations = locations or []
        self.orf = orf
        self.selenocysteine = selenocysteine or []
    m.DNASeqRecordWithCoordinates.__init__ = __init__
    def __ainit__(self, seq, *args, locations=None, orf=None, **kwargs):
        _base(self, 'AminoAcidSeqRecordWithCoordinates').__init__(self, seq, *args, **kwargs)
        self.locations = locations or []
        self.orf = orf
    a.AminoAcidSeqRecordWithCoordinates.__init__ = __ainit__
