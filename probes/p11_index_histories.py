import sys, io, contextlib, time, json, shutil, argparse
sys.path.insert(0,'/tmp/exp')
from explore1 import *
import moPepGen.cli.generate_index, moPepGen.cli.update_index
gi = sys.modules['moPepGen.cli.generate_index']; ui = sys.modules['moPepGen.cli.update_index']
from moPepGen import params
work = Path('/tmp/exp/w/c12'); shutil.rmtree(work, ignore_errors=True)
anno0, genome, _ = gen(1, work/'refA', n_genes=4, n_var=0)
anno1, genome1, _ = gen(2, work/'refB', n_genes=4, n_var=0)
def gargs(ref, out, rule='trypsin', mis=2, minlen=7, force=False, symlink=False):
    return argparse.Namespace(command='generateIndex', genome_fasta=work/ref/'genome.fasta', annotation_gtf=work/ref/'annotation.gtf', proteome_fasta=work/ref/'proteome.fasta', reference_source=None, invalid_protein_as_noncoding=False, output_dir=out, gtf_symlink=symlink, force=force, cleavage_rule=rule, cleavage_exception='auto', miscleavage=mis, min_mw=500., min_length=minlen, max_length=25, quiet=True, debug_level=1)
def uargs(out, rule='trypsin', mis=2, minlen=7, force=False):
    return argparse.Namespace(command='updateIndex', index_dir=out, force=force, cleavage_rule=rule, cleavage_exception='auto', miscleavage=mis, min_mw=500., min_length=minlen, max_length=25, quiet=True, debug_level=1)
def call(f, a):
    try:
        with contextlib.redirect_stdout(io.StringIO()): f(a)
        return 'ok'
    except SystemExit as e: return f'exit{e.code}'
    except Exception as e: return f'{type(e).__name__}:{str(e)[:60]}'
def load(out, rule='trypsin', mis=2, minlen=7, mvpn=7):
    a = argparse.Namespace(index_dir=out, cleavage_rule=rule)
    cp = params.CleavageParams(enzyme=rule, exception='auto', miscleavage=mis, min_mw=500., min_length=minlen, max_length=25, max_variants_per_node=mvpn)
    try:
        g, an, _, pool = common.load_references(a, cleavage_params=cp)
        return len(pool)
    except Exception as e: return f'{type(e).__name__}:{str(e)[:60]}'
out = work/'idx'
t0=time.time()
print('gen', call(gi.generate_index, gargs('refA', out)), '%.3fs'%(time.time()-t0))
print('gen again', call(gi.generate_index, gargs('refA', out)))
t0=time.time(); print('upd lysc', call(ui.update_index, uargs(out, rule='lysc')), '%.3fs'%(time.time()-t0))
print('upd lysc again', call(ui.update_index, uargs(out, rule='lysc')))
print('upd lysc force', call(ui.update_index, uargs(out, rule='lysc', force=True)))
print('upd mis1 force(new)', call(ui.update_index, uargs(out, mis=1, force=True)))
print(sorted(p.name for p in out.iterdir()))
print(json.load(open(out/'metadata.json'))['canonical_pools'])
print('load tryp', load(out), 'lysc', load(out, 'lysc'), 'mis1', load(out, mis=1), 'mis0', load(out, mis=0), 'mvpn9', load(out, mvpn=9))
print('gen force refB symlink', call(gi.generate_index, gargs('refB', out, force=True, symlink=True)))
print(sorted(p.name for p in out.iterdir()))
print('load tryp', load(out), 'lysc', load(out, 'lysc'))
print('gen force refB', call(gi.generate_index, gargs('refB', out, force=True, rule='lysc')))
print(sorted(p.name for p in out.iterdir()))
print('load tryp', load(out), 'lysc', load(out, 'lysc'))
md = json.load(open(out/'metadata.json')); md['version']['biopython']='1.79'; json.dump(md, open(out/'metadata.json','w'))
print('tampered load', load(out,'lysc'), 'upd', call(ui.update_index, uargs(out)))
