import sys, os, io, contextlib, random, argparse, shutil, collections
sys.path.insert(0,'/tmp/exp')
from explore1 import *
import moPepGen.cli.index_gvf, moPepGen.cli.decoy_fasta
ig = sys.modules['moPepGen.cli.index_gvf']; df = sys.modules['moPepGen.cli.decoy_fasta']
from moPepGen.seqvar import VariantRecordPoolOnDisk, VariantRecordPoolOnDiskOpener
W = Path('/tmp/exp/w/c13'); shutil.rmtree(W, ignore_errors=True); W.mkdir(parents=True)
rng = random.Random(3)
# records from demo gvfs
D=Path('/repo/test/files')
src = [D/'vep/vep_gSNP.gvf', D/'vep/vep_gINDEL.gvf', D/'fusion/fusion.gvf', D/'alternative_splicing/alternative_splicing.gvf', D/'reditools/reditools.gvf']
hdr=None; recs=[]
for p in src:
    ls=open(p).readlines()
    if hdr is None: hdr=[l for l in ls if l.startswith('#')]
    recs += [l for l in ls if not l.startswith('#') and l.strip()]
def tx_of(l): return [f.split('=')[1] for f in l.rstrip().split('\t')[7].split(';') if f.startswith('TRANSCRIPT_ID=')][0]
bad=0
for t in range(40):
    n = rng.randint(1, len(recs)); sel = rng.sample(recs, n)
    if rng.random()<0.5: sel.sort(key=tx_of)
    k = rng.randint(1,3); groups=[[] for _ in range(k)]
    for r in sel: groups[rng.randrange(k)].append(r)
    files=[]
    d = W/f't{t}'; d.mkdir()
    for i,g in enumerate(groups):
        if not g: continue
        p=d/f'f{i}.gvf'; open(p,'w').writelines(hdr+g); files.append(p)
    scan = collections.defaultdict(collections.Counter)
    for p in files:
        for l in open(p):
            if l.startswith('#'): continue
            scan[tx_of(l)][seqvar.io.line_to_variant_record(l).to_string()] += 1
    res={}
    for mode in ('noidx','idx'):
        if mode=='idx':
            for p in files:
                with contextlib.redirect_stdout(io.StringIO()): ig.index_gvf(argparse.Namespace(command='indexGVF', input_path=p, quiet=True, debug_level=1))
        pool = VariantRecordPoolOnDisk(gvf_files=files)
        with VariantRecordPoolOnDiskOpener(pool):
            keys = list(pool.pointers); rng.shuffle(keys); keys = keys + rng.sample(keys, min(3,len(keys)))
            got = {}
            for key in keys:
                c = collections.Counter()
                for ptr in pool.pointers[key]:
                    for r in ptr.load(): c[r.to_string()] += 1
                got[key]=c
        if set(got)!=set(scan) or any(got[k2]!=scan[k2] for k2 in got):
            bad+=1; print(t, mode, 'MISMATCH', len(files), set(got)^set(scan))
    # stale
    p = files[0]
    b = open(p,'rb').read()
    edit = rng.choice(['append','delete','flip','same'])
    if edit=='append': open(p,'ab').write(rng.choice(recs).encode())
    elif edit=='delete':
        ls=open(p).readlines(); body=[i for i,l in enumerate(ls) if not l.startswith('#')]
        del ls[rng.choice(body)]; open(p,'w').writelines(ls)
    elif edit=='flip':
        i = rng.randrange(len(b)); bb = bytearray(b); bb[i] = ord('Z') if bb[i]!=ord('Z') else ord('Y'); open(p,'wb').write(bytes(bb))
    else: open(p,'wb').write(b)
    pool = VariantRecordPoolOnDisk(gvf_files=files)
    try:
        with VariantRecordPoolOnDiskOpener(pool): pass
        outcome='opened'
    except ValueError as e: outcome='rejected'
    except Exception as e: outcome='other:'+type(e).__name__
    changed = open(p,'rb').read()!=b
    if (changed and outcome!='rejected') or (not changed and outcome!='opened'):
        bad+=1; print(t, 'STALE', edit, changed, outcome)
print('c13 bad', bad)
# C20
import hashlib
fa = Path('/tmp/exp/alt.fasta') if Path('/tmp/exp/alt.fasta').exists() else None
tgt = W/'targets.fasta'
peps = set()
while len(peps)<40: peps.add(''.join(rng.choice('ACDEFGHIKLMNPQRSTVWY') for _ in range(rng.randint(7,20))))
peps = list(peps) + ['AAAAAAAK','AAAAAAK','KKKKKKKK']
def wfa(path, order): open(path,'w').write(''.join(f'>h{peps.index(s)}|x\n{s}\n' for s in order))
def dargs(i,o,**kw):
    a = argparse.Namespace(command='decoyFasta', input_path=i, output_path=o, method='shuffle', enzyme='trypsin', keep_peptide_nterm='true', keep_peptide_cterm='true', non_shuffle_pattern='K,R', shuffle_max_attempts=30, seed=7, decoy_string='DECOY_', decoy_string_position='prefix', order='juxtaposed', quiet=True, debug_level=1)
    for k,v in kw.items(): setattr(a,k,v)
    return a
wfa(tgt, peps)
outs=[]
for i in range(3):
    random.seed(i*17); [random.random() for _ in range(i*5)]
    o=W/f'd{i}.fasta'
    with contextlib.redirect_stdout(io.StringIO()): df.decoy_fasta(dargs(tgt,o))
    outs.append(open(o,'rb').read())
print('c20 reproducible in-process', len(set(outs))==1)
perm = peps[:]; rng.shuffle(perm); wfa(W/'t2.fasta', perm)
with contextlib.redirect_stdout(io.StringIO()): df.decoy_fasta(dargs(W/'t2.fasta', W/'d_perm.fasta'))
def recset(p): return {(r.description, str(r.seq)) for r in SeqIO.parse(p,'fasta')}
print('c20 order independent', recset(W/'d0.fasta')==recset(W/'d_perm.fasta'), len(recset(W/'d0.fasta')))
