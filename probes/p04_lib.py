import sys, os, time, random, io, contextlib, types
sys.path.insert(0,'/tmp/exp')
from explore1 import *
import moPepGen.cli.common as common_mod

class FakeSignal:
    SIGALRM = 14
    def __init__(self, plan):
        self.plan = plan      # list of k (line index to fire at) per arm; None = never
        self.arm_count = 0
        self.handler = None
        self.lines = 0
        self.fired = []
        self.counts = []
    def signal(self, signum, handler):
        self.handler = handler
    def alarm(self, seconds):
        if seconds == 0:
            sys.settrace(None)
            self.counts.append(self.lines)
            return 0
        k = self.plan[self.arm_count] if self.arm_count < len(self.plan) else None
        self.arm_count += 1
        self.lines = 0
        fs = self
        def local(frame, event, arg):
            if event == 'line':
                fs.lines += 1
                if k is not None and fs.lines == k:
                    fs.fired.append((frame.f_code.co_filename.split('/')[-1], frame.f_lineno))
                    fs.handler(14, frame)
            return local
        def glob(frame, event, arg):
            if 'moPepGen' in frame.f_code.co_filename:
                return local
            return None
        sys.settrace(glob)
        return 0

def run(work, files, plan, **kw):
    fs = FakeSignal(plan)
    common_mod.signal = fs
    a = base_args(work, files, **kw)
    buf = io.StringIO()
    try:
        with contextlib.redirect_stdout(buf):
            cvp.call_variant_peptide(a)
    finally:
        sys.settrace(None)
    recs = list(SeqIO.parse(a.output_path,'fasta'))
    return {str(r.seq): r.description for r in recs}, fs, buf.getvalue()

