import sys, os, time, random, io, contextlib, hashlib
sys.path.insert(0,'/tmp/exp')
from explore1 import *
import pickle as dill
from collections import Counter

class SimPool:
    def __init__(self, ncpus): self.ncpus = ncpus; self.batches=[]
    def map(self, f, seq):
        out=[]
        self.batches.append(len(seq))
        for item in seq:
            item2 = dill.loads(dill.dumps(item))
            r = f(item2)
            out.append(dill.loads(dill.dumps(r)))
        return out
POOLS=[]
def mk(ncpus):
    p = SimPool(ncpus); POOLS.append(p); return p

def run(work, files, **kw):
    cvp.ParallelPool = mk
    a = base_args(work, files, **kw)
    buf = io.StringIO()
    with contextlib.redirect_stdout(buf):
        cvp.call_variant_peptide(a)
    recs = list(SeqIO.parse(a.output_path,'fasta'))
    return {str(r.seq): r.description for r in recs}

for seed in range(int(sys.argv[1]), int(sys.argv[2])):
    work = Path(f'/tmp/exp/w/s{seed}')
    anno, genome, recs = gen(seed, work, n_genes=6, n_var=24)
    files = write(recs, work, anno)
    kinds = Counter(type(r).__name__ if isinstance(r, CircRNAModel) else r.type for r in recs)
    res = {}
    for t in (1,2,3,4):
        for nc in (False, True):
            t0=time.time()
            try:
                res[(t,nc)] = run(work, files, threads=t, noncanonical_transcripts=nc, output_path=work/f'o_{t}_{nc}.fasta')
            except Exception as e:
                res[(t,nc)] = ('ERR', type(e).__name__, str(e)[:80])
    print(seed, dict(kinds))
    for nc in (False, True):
        base = res[(1,nc)]
        for t in (2,3,4):
            r = res[(t,nc)]
            if isinstance(r, tuple) or isinstance(base, tuple):
                print('   ', t, nc, r if isinstance(r, tuple) else 'ok', base if isinstance(base, tuple) else 'ok'); continue
            same = set(r)==set(base)
            print('   threads',t,'nc',nc,'n1',len(base),'nt',len(r),'same',same, 'hdr_same', r==base)
