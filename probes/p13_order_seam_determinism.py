import sys, hashlib
sys.path.insert(0,'/tmp/exp')
from explore4_lib import *
import dethash
p = dethash.install()
if len(sys.argv)>3: print(len(p), [x.split('.')[-1] for x in p])
pre = int(sys.argv[2])
for s in range(100, 100+pre):
    work = Path(f'/tmp/exp/w/p{s}'); anno, genome, recs = gen(s, work, n_genes=3, n_var=8); files = write(recs, work, anno)
    dethash.reset(); run(work, files, [])
seed = int(sys.argv[1])
work = Path(f'/tmp/exp/w/d{seed}')
anno, genome, recs = gen(seed, work, n_genes=4, n_var=16)
files = write(recs, work, anno)
for salt in (0, 0, 12345):
    dethash.reset(salt)
    out, fs, _ = run(work, files, [], max_variants_per_node=[7,5,3], additional_variants_per_misc=[2,1,0])
    print(seed, pre, salt, fs.counts, hashlib.sha1('\n'.join(sorted(out)).encode()).hexdigest()[:8], hashlib.sha1(repr(sorted(out.items())).encode()).hexdigest()[:8])
