import sys, os, io, contextlib
sys.path.insert(0,'/tmp/exp')
from explore1 import *
seed=int(sys.argv[1])
work = Path(f'/tmp/exp/w/s{seed}')
anno, genome, recs = gen(seed, work, n_genes=6, n_var=24)
files = write(recs, work, anno)
def run(**kw):
    a = base_args(work, files, **kw)
    with contextlib.redirect_stdout(io.StringIO()):
        cvp.call_variant_peptide(a)
    return {str(r.seq): r.description for r in SeqIO.parse(a.output_path,'fasta')}
base = run()
orig = {n: getattr(cvp, n) for n in ('call_peptide_main','call_peptide_fusion','call_peptide_circ_rna')}
calls = []
def wrap(name):
    def f(*a, **k):
        r = orig[name](*a, **k)
        uid = k.get('tx_id') or (k['variant'].id if 'variant' in k else k['record'].id)
        calls.append((name, uid, len(r[0])))
        return r
    return f
for n in orig: setattr(cvp, n, wrap(n))
run()
print(calls)
units = list(calls)
for (name, uid, n) in units:
    def failing(*a, _name=name, _uid=uid, **k):
        u = k.get('tx_id') or (k['variant'].id if 'variant' in k else k['record'].id)
        if u == _uid: raise RuntimeError('injected')
        return orig[_name](*a, **k)
    for nn in orig: setattr(cvp, nn, orig[nn])
    setattr(cvp, name, failing)
    for sf in (True, False):
        try:
            out = run(skip_failed=sf)
            print(name, uid, 'skip_failed', sf, 'OK', len(out), 'lost', len(set(base)-set(out)), 'extra', len(set(out)-set(base)))
        except Exception as e:
            print(name, uid, 'skip_failed', sf, 'RAISED', type(e).__name__, str(e)[:100])
