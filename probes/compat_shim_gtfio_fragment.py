    import moPepGen.gtf.GtfIO as _g
    def _parse(handle):
        if isinstance(handle, (str, os.PathLike)):
            def it():
                with open(handle, 'rt') as h:
                    yield from _g.GtfIterator.iterate(h)
            return it()
        return _g.GtfIterator.iterate(handle)
    _g.parse = _parse
