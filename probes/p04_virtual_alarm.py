import sys, os, time, random, io, contextlib, types
sys.path.insert(0,'/tmp/exp')
from explore1 import *
import moPepGen.cli.common as common_mod

class FakeSignal:
    SIGALRM = 14
    def __init__(self, plan):
        self.plan = plan      # list of k (line index to fire at) per arm; None = never
        self.arm_count = 0
        self.handler = None
        self.lines = 0
        self.fired = []
        self.counts = []
    def signal(self, signum, handler):
        self.handler = handler
    def alarm(self, seconds):
        if seconds == 0:
            sys.settrace(None)
            self.counts.append(self.lines)
            return 0
        k = self.plan[self.arm_count] if self.arm_count < len(self.plan) else None
        self.arm_count += 1
        self.lines = 0
        fs = self
        def local(frame, event, arg):
            if event == 'line':
                fs.lines += 1
                if k is not None and fs.lines == k:
                    fs.fired.append((frame.f_code.co_filename.split('/')[-1], frame.f_lineno))
                    fs.handler(14, frame)
            return local
        def glob(frame, event, arg):
            if 'moPepGen' in frame.f_code.co_filename:
                return local
            return None
        sys.settrace(glob)
        return 0

def run(work, files, plan, **kw):
    fs = FakeSignal(plan)
    common_mod.signal = fs
    a = base_args(work, files, **kw)
    buf = io.StringIO()
    try:
        with contextlib.redirect_stdout(buf):
            cvp.call_variant_peptide(a)
    finally:
        sys.settrace(None)
    recs = list(SeqIO.parse(a.output_path,'fasta'))
    return {str(r.seq): r.description for r in recs}, fs, buf.getvalue()

seed = int(sys.argv[1])
work = Path(f'/tmp/exp/w/s{seed}')
anno, genome, recs = gen(seed, work, n_genes=4, n_var=16)
files = write(recs, work, anno)
t0=time.time(); base, fs0, _ = run(work, files, [], max_variants_per_node=[7,5,3], additional_variants_per_misc=[2,1,0]); t1=time.time()
print('fault-free traced: %.2fs' % (t1-t0), 'arms', fs0.arm_count, 'line counts', fs0.counts, 'npep', len(base))
import signal as real_signal
common_mod.signal = real_signal
t0=time.time()
a = base_args(work, files)
with contextlib.redirect_stdout(io.StringIO()): cvp.call_variant_peptide(a)
print('untraced: %.2fs' % (time.time()-t0))
rng = random.Random(seed)
for trial in range(8):
    j = rng.randrange(len(fs0.counts))
    k = rng.randrange(1, fs0.counts[j]+1)
    plan = [None]*j + [k]
    try:
        out, fs, log = run(work, files, plan, max_variants_per_node=[7,5,3], additional_variants_per_misc=[2,1,0])
        extra = set(out)-set(base); lost = set(base)-set(out)
        print('trial', trial, 'arm', j, 'k', k, 'fired', fs.fired, 'arms', fs.arm_count, 'extra', len(extra), 'lost', len(lost), [l for l in log.split('\n') if 'timed out' in l][:1])
    except Exception as e:
        print('trial', trial, 'arm', j, 'k', k, 'EXC', type(e).__name__, str(e)[:100])
