import sys, os, time, random, argparse, warnings, io, contextlib
warnings.filterwarnings('ignore')
sys.path.insert(0, '/tmp/exp/shim'); os.environ['EXP_SHIM']='1'
import sitecustomize
from pathlib import Path
from Bio import SeqIO
from moPepGen import fake, aa, gtf, dna, seqvar, circ
from moPepGen.gtf import GtfIO
from moPepGen.cli import common
import moPepGen.cli.call_variant_peptide
cvp = sys.modules['moPepGen.cli.call_variant_peptide']
from moPepGen.util.fuzz_test import FuzzTestCase, FuzzTestConfig
from moPepGen.circ import CircRNAModel

FAILS=[]
def gen(seed, work:Path, n_genes=5, n_var=20):
    random.seed(seed)
    genome, anno = fake.fake_genome_and_annotation(n_genes)
    proteome = aa.AminoAcidSeqDict()
    for tx_model in anno.transcripts.values():
        if not tx_model.is_protein_coding: continue
        tx_seq = tx_model.get_transcript_sequence(genome[tx_model.transcript.chrom])
        from Bio.Seq import Seq
        aas = str(tx_seq.seq[tx_seq.orf.start:tx_seq.orf.end].translate())
        for sec in tx_seq.selenocysteine:
            s = int((sec.start - tx_seq.orf.start)/3)
            aas = aas[:s] + 'U' + aas[s+1:]
        rec = aa.AminoAcidSeqRecord(Seq(aas), _id=tx_model.transcript_id, name=tx_model.transcript_id, description=f"{tx_model.protein_id}|{tx_model.transcript_id}|{tx_model.gene_id}|XXX", gene_id=tx_model.gene_id, transcript_id=tx_model.transcript_id, protein_id=tx_model.protein_id)
        proteome[tx_model.transcript_id] = rec
    work.mkdir(parents=True, exist_ok=True)
    with open(work/'annotation.gtf','wt') as h: GtfIO.write(h, anno)
    with open(work/'genome.fasta','wt') as h:
        w = SeqIO.FastaIO.FastaWriter(h, record2title=lambda x:x.id)
        for r in genome.values(): w.write_record(r)
    with open(work/'proteome.fasta','wt') as h:
        w = SeqIO.FastaIO.FastaWriter(h, record2title=lambda x:x.description)
        for r in proteome.values(): w.write_record(r)
    txs = list(anno.transcripts.keys())
    recs = []
    for i in range(n_var):
        tx = random.choice(txs)
        k = random.random()
        try:
            if k < 0.08:
                r = fake.fake_fusion(anno, genome, tx)
            elif k < 0.16:
                r = fake.fake_circ_rna_model(anno, tx, 0.2)
            elif k < 0.3:
                r = fake.fake_rmats_record(anno, genome, tx)
            else:
                r = fake.fake_variant_record(anno=anno, genome=genome, tx_id=tx, var_type=random.choice(['SNV','SNV','INDEL']), max_size=6, exonic_only=True)
            recs.append(r)
        except Exception as e:
            FAILS.append(type(e).__name__)
    return anno, genome, recs

def write(recs, work, anno):
    var = [r for r in recs if not isinstance(r, CircRNAModel)]
    cir = [r for r in recs if isinstance(r, CircRNAModel)]
    rank = anno.get_genes_rank()
    var.sort(key=lambda r: (rank[r.location.seqname], r.attrs['TRANSCRIPT_ID']))
    args = argparse.Namespace(index_dir=None, command='parseVEP', source='gSNP', genome_fasta=work/'genome.fasta', annotation_gtf=work/'annotation.gtf')
    md = common.generate_metadata(args)
    seqvar.io.write(var, work/'var.gvf', md)
    files=[work/'var.gvf']
    if cir:
        args.command='parseCIRCexplorer'; args.source='circRNA'
        md = common.generate_metadata(args)
        with open(work/'circ.gvf','w') as h: circ.io.write(cir, md, h)
        files.append(work/'circ.gvf')
    return files

def base_args(work, files, **kw):
    a = argparse.Namespace(command='callVariant', index_dir=None, genome_fasta=work/'genome.fasta', annotation_gtf=work/'annotation.gtf', proteome_fasta=work/'proteome.fasta', reference_source=None, input_path=files, output_path=work/'out.fasta', graph_output_dir=None, max_adjacent_as_mnv=2, backsplicing_only=False, coding_novel_orf=False, selenocysteine_termination=True, w2f_reassignment=True, max_variants_per_node=[7], additional_variants_per_misc=[2], min_nodes_to_collapse=30, naa_to_collapse=5, cleavage_rule='trypsin', cleavage_exception=None, miscleavage='2', min_mw='500.', min_length=7, max_length=25, quiet=True, debug_level=1, noncanonical_transcripts=False, invalid_protein_as_noncoding=False, threads=1, timeout_seconds=1800, skip_failed=False)
    for k,v in kw.items(): setattr(a,k,v)
    return a

if __name__ == '__main__':
    for seed in range(int(sys.argv[1]), int(sys.argv[2])):
        work = Path(f'/tmp/exp/w/s{seed}')
        t0=time.time()
        anno, genome, recs = gen(seed, work)
        files = write(recs, work, anno)
        t1=time.time()
        try:
            with contextlib.redirect_stdout(io.StringIO()):
                cvp.call_variant_peptide(base_args(work, files))
            n = sum(1 for _ in SeqIO.parse(work/'out.fasta','fasta'))
            print(seed, 'gen %.2fs call %.2fs'%(t1-t0, time.time()-t1), 'nrec', len(recs), 'npep', n)
        except Exception as e:
            import traceback
            print(seed, 'FAIL', type(e).__name__, str(e)[:200], 'call %.2fs'%(time.time()-t1))
            traceback.print_exc(limit=-3)
        print('   genfails', len(FAILS)); FAILS.clear()
