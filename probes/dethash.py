import sys, inspect, itertools, pkgutil, importlib
import moPepGen
_counter = itertools.count(1)
SALT = [0]
PATCHED = []
def reset(salt=0):
    global _counter
    _counter = itertools.count(1)
    SALT[0] = salt
def _serial_hash(self):
    try:
        s = self.__dict__['_sim_serial']
    except KeyError:
        s = next(_counter)
        self.__dict__['_sim_serial'] = s
    return (s * 2654435761 + SALT[0]) & 0x7fffffffffff if SALT[0] else s
def install():
    mods = []
    for m in pkgutil.walk_packages(moPepGen.__path__, 'moPepGen.'):
        if '.util' in m.name: continue
        try: mods.append(importlib.import_module(m.name))
        except Exception as e: pass
    seen=set()
    for mod in mods:
        for name, cls in inspect.getmembers(mod, inspect.isclass):
            if not cls.__module__.startswith('moPepGen') or cls in seen: continue
            seen.add(cls)
            if cls.__hash__ is object.__hash__ and '__eq__' not in cls.__dict__ and not hasattr(cls, '__slots__') and not issubclass(cls, (BaseException, dict, list, set)):
                try:
                    cls.__hash__ = _serial_hash; PATCHED.append(cls.__module__+'.'+cls.__name__)
                except TypeError: pass
    return PATCHED
