import sys, os, io, contextlib, random, argparse, shutil, gzip
sys.path.insert(0,'/tmp/exp')
from explore1 import *
import moPepGen.cli.parse_vep, moPepGen.cli.parse_star_fusion
pv = sys.modules['moPepGen.cli.parse_vep']; ps = sys.modules['moPepGen.cli.parse_star_fusion']
from moPepGen.parser import VEPParser, STARFusionParser
D = Path('/repo/test/files'); W = Path('/tmp/exp/w/pars'); shutil.rmtree(W, ignore_errors=True); W.mkdir(parents=True)
def recs_of(p):
    return [l for l in open(p) if not l.startswith('#')] if p.exists() else None
def vep_args(inp, out, sf):
    return argparse.Namespace(command='parseVEP', input_path=[inp], output_path=out, source='gSNP', skip_failed=sf, genome_fasta=D/'genome.fasta', annotation_gtf=D/'annotation.gtf', reference_source=None, index_dir=None, quiet=True, debug_level=1)
def call(f, a):
    try:
        with contextlib.redirect_stdout(io.StringIO()): f(a)
        return 'ok'
    except SystemExit as e: return f'exit{e.code}'
    except Exception as e: return f'{type(e).__name__}'
src = D/'vep/vep_snp.txt'
lines = open(src).read().split('\n')
hdr = [l for l in lines if l.startswith('#')]; rows = [l for l in lines if l and not l.startswith('#')]
print('vep rows', len(rows))
print(call(pv.parse_vep, vep_args(src, W/'full.gvf', False)), len(recs_of(W/'full.gvf')))
orig = VEPParser.VEPRecord.convert_to_variant_record
rng = random.Random(1)
for t in range(6):
    failset = set(rng.sample(range(len(rows)), rng.randint(1,3)))
    # map by row identity: use (uploaded_variation, location, allele, feature) key
    keys = set()
    for i in failset:
        f = rows[i].split('\t'); keys.add((f[0], f[1], f[2], f[4]))
    def patched(self, *a, **k):
        if (self.uploaded_variation, self.location, self.allele, self.feature) in keys: raise RuntimeError('inj')
        return orig(self, *a, **k)
    VEPParser.VEPRecord.convert_to_variant_record = patched
    ra = call(pv.parse_vep, vep_args(src, W/f'a{t}.gvf', True))
    rn = call(pv.parse_vep, vep_args(src, W/f'n{t}.gvf', False))
    VEPParser.VEPRecord.convert_to_variant_record = orig
    sub = W/f'sub{t}.txt'; open(sub,'w').write('\n'.join(hdr+[r for i,r in enumerate(rows) if i not in failset])+'\n')
    rb = call(pv.parse_vep, vep_args(sub, W/f'b{t}.gvf', False))
    A, B = recs_of(W/f'a{t}.gvf'), recs_of(W/f'b{t}.gvf')
    print(t, sorted(failset), ra, rb, 'A==B', A==B, len(A or []), 'noflag:', rn, (W/f'n{t}.gvf').exists())
