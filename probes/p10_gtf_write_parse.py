import sys, glob, io
sys.path.insert(0,'/tmp/exp')
from explore1 import *
def digest_feature(f):
    return (f.chrom, int(f.location.start), int(f.location.end), f.location.strand, f.type, getattr(f,'frame',None), tuple(sorted((k, tuple(v) if isinstance(v,list) else v) for k,v in f.attributes.items())))
def digest_tx(m):
    return tuple((n, tuple(digest_feature(x) for x in getattr(m,n))) for n in ('cds','exon','utr','five_utr','three_utr','selenocysteine','start_codon','stop_codon')) + (digest_feature(m.transcript), m.is_protein_coding, m.transcript_id, m.gene_id, m.protein_id, m.gene_name, m.gene_type)
def digest_gene(g):
    return (digest_feature(g), tuple(g.transcripts))
paths = sorted(glob.glob('/repo/test/files/**/annotation.gtf', recursive=True)) + sorted(glob.glob('/tmp/exp/w/c11_*/annotation.gtf'))
bad=0
for p in paths:
    m1 = gtf.GenomicAnnotation(); m1.dump_gtf(p)
    buf = io.StringIO(); GtfIO.write(buf, m1); buf.seek(0)
    m2 = gtf.GenomicAnnotation(); m2.dump_gtf(buf)
    diffs=[]
    if list(m1.genes)!=list(m2.genes) or list(m1.transcripts)!=list(m2.transcripts): diffs.append('keys')
    for t in m1.transcripts:
        if t in m2.transcripts:
            a,b = digest_tx(m1.transcripts[t]), digest_tx(m2.transcripts[t])
            if a!=b: diffs.append((t,[x[0] if isinstance(x,tuple) and isinstance(x[0],str) else i for i,(x,y) in enumerate(zip(a,b)) if x!=y]))
    for g in m1.genes:
        if g in m2.genes and digest_gene(m1.genes[g])!=digest_gene(m2.genes[g]): diffs.append(('gene',g))
    if diffs: bad+=1; print(p.replace('/repo/test/files/',''), diffs[:3])
print(len(paths), 'bad', bad)
