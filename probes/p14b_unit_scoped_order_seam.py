import sys, os, io, contextlib, random, hashlib
sys.path.insert(0,'/tmp/exp')
from explore1 import *
import dethash; dethash.install()
UNITS = ('call_peptide_main','call_peptide_fusion','call_peptide_circ_rna')
orig = {n: getattr(cvp, n) for n in UNITS}
ORIG_CANON = cvp.call_canonical_peptides
def uid_of(name, k):
    return k.get('tx_id') or (k['variant'].id if 'variant' in k else k['record'].id)
class Inject(Exception): pass
def install(plan, mode, log):
    """plan: {(name, uid): k or 0}; mode 'fail' raise at k-th line inside; 'skip' return empty; 'count' count lines"""
    def mk(name):
        def f(*a, **k):
            dethash.reset()
            u = uid_of(name, k)
            key = (name, u)
            if key in plan and mode == 'skip':
                return {}, None, None
            if (key in plan and mode == 'fail') or mode == 'count':
                kfire = plan.get(key, None) if mode == 'fail' else None
                st = {'n': 0}
                def local(frame, event, arg):
                    if event == 'line':
                        st['n'] += 1
                        if kfire is not None and st['n'] == kfire:
                            log.append((name, u, frame.f_code.co_filename.split('/')[-1], frame.f_lineno))
                            raise RuntimeError('injected')
                    return local
                def glob(frame, event, arg):
                    return local if 'moPepGen' in frame.f_code.co_filename else None
                if kfire == 0:
                    raise RuntimeError('injected at entry')
                sys.settrace(glob)
                try:
                    return orig[name](*a, **k)
                finally:
                    sys.settrace(None)
                    if mode == 'count': log.append((name, u, st['n']))
            return orig[name](*a, **k)
        return f
    for n in UNITS: setattr(cvp, n, mk(n))
    def canon(*a, **k):
        dethash.reset()
        return ORIG_CANON(*a, **k)
    cvp.call_canonical_peptides = canon
def run(work, files, **kw):
    dethash.reset()
    a = base_args(work, files, **kw)
    with contextlib.redirect_stdout(io.StringIO()):
        cvp.call_variant_peptide(a)
    fa = {str(r.seq): frozenset(r.description.split(' ')) for r in SeqIO.parse(a.output_path,'fasta')}
    tab = sorted(open(str(a.output_path).replace('.fasta','_peptide_table.txt')).read().split('\n'))
    return fa, tab
seed=int(sys.argv[1]); ntr=int(sys.argv[2])
work = Path(f'/tmp/exp/w/s{seed}')
anno, genome, recs = gen(seed, work, n_genes=6, n_var=24)
files = write(recs, work, anno)
log=[]; install({}, 'count', log); F, _ = run(work, files)
units = [(n,u,c) for (n,u,c) in log]
print('units', [(n.split('_')[-1] if False else n[13:], c) for n,u,c in units])
rng = random.Random(seed)
nbad=0
for t in range(ntr):
    n,u,c = rng.choice(units)
    k = rng.randrange(0, c+1)
    plan = {(n,u): k}
    flog=[]; install(plan, 'fail', flog)
    try:
        A, At = run(work, files, skip_failed=True)
    except Exception as e:
        print('A raised', n[13:], u[:30], k, type(e).__name__, str(e)[:60]); nbad+=1; continue
    install(plan, 'skip', [])
    B, Bt = run(work, files, skip_failed=True)
    ok = (A == B and At == Bt)
    sand = set(A) <= set(F)
    if not ok or not sand:
        nbad+=1
        print('MISMATCH', n[13:], u[:40], k, flog, 'A-B', len(set(A)-set(B)), 'B-A', len(set(B)-set(A)), 'hdrdiff', sum(1 for s in set(A)&set(B) if A[s]!=B[s]), 'A<=F', sand)
print('trials', ntr, 'bad', nbad)
